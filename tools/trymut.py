#!/usr/bin/env python3
"""Sensitivity probe: apply a textual mutation to /repo, run checks, revert.
usage: trymut.py <file-in-repo> <old> <new> <CHECK>[,<CHECK>...] [--tests] [--tier T]
"""
import subprocess, sys, os
path, old, new, checks = sys.argv[1:5]
run_tests = '--tests' in sys.argv
tier = sys.argv[sys.argv.index('--tier') + 1] if '--tier' in sys.argv else 'quick'
full = os.path.join('/repo', path)
if subprocess.run('git -C /repo status --porcelain --untracked-files=no', shell=True, capture_output=True, text=True).stdout.strip():
    sys.exit('/repo has uncommitted changes')
text = open(full).read()
if text.count(old) < 1:
    sys.exit('pattern not found in ' + path)
open(full, 'w').write(text.replace(old, new, 1))
try:
    if run_tests:
        out = subprocess.run('/verif/run_repo_tests.sh', shell=True, capture_output=True, text=True).stdout
        print('TESTS:', out.strip().splitlines()[-1])
    for check in checks.split(','):
        p = subprocess.run(['/verif/check', check, '--tier', tier], capture_output=True, text=True, cwd='/verif')
        lines = [l for l in p.stdout.splitlines() if l.startswith(('VIOLATION', 'violation', 'KNOWN'))]
        print('{} exit={} {}'.format(check, p.returncode, 'CAUGHT' if p.returncode == 1 else ('MISSED' if p.returncode == 0 else 'ERROR')))
        for l in lines[:4]: print('   ', l[:300])
        if p.returncode == 2: print(p.stderr[-1500:])
finally:
    open(full, 'w').write(text)
    subprocess.run(['git', '-C', '/repo', 'status', '--short', '--untracked-files=no'])
    subprocess.run('rm -rf /verif/replays/*/[!f]*-????????.json', shell=True)
