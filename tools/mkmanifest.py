#!/usr/bin/env python3
"""Regenerate MANIFEST.json from the table below (keeps it schema-valid)."""
import json, os
ROOT = os.path.dirname(os.path.dirname(os.path.abspath(__file__)))
BASELINE = "cd /repo && /venv/bin/python -m pytest -ra -q -p no:cacheprovider --timeout=900 --continue-on-collection-errors"

CHECKS = {
 'C11': dict(
    technique='exhaustive enumeration (all strings over 0-9*: up to length 4/6, all 15851 patterns x 1440 minutes, or-lists over reduced alphabets) + Hypothesis-generated or-lists and reuse scripts, against an independent denotation oracle',
    category='exploration',
    text='Finite domain enumerated completely at the bounds the property names (accept/reject for every string, full minute table for every accepted pattern); or-lists exhaustive over reduced alphabets and sampled over the full set; orders of use sampled. Violations inside the enumerated part cannot be missed; outside it the check is a search.',
    design='DESIGN.md section 3, C11',
    note='Trusts the independent denotation in verif/lang/timepat.py (reviewable, 40 lines) and the RecordingClock that tabulates the object handed to wait_until; "*:*" acceptance not asserted.'),
 'C07': dict(
    technique='exhaustive enumeration of all 65536 raw values per component through get/set scripts, fine logical grids, and Hypothesis-generated mode x value x command-kind scripts, against an exact Fraction reference and a protocol oracle at the lifxlan boundary',
    category='exploration',
    text='Raw round trip and the logical grids are enumerated completely; every command kind in every unit mode is sampled with in-range, out-of-range, tie and huge values. Each request is checked for protocol range/type and compared with exact rational arithmetic (nearest integer, both neighbours on ties).',
    design='DESIGN.md section 3, C07',
    note='Trusts verif/lang/units_exact.py (Fraction arithmetic) and the SimDevice protocol oracle; rgb values outside 0..100 only range-checked; half-open zone convention of the repository fake (A3).'),
 'C01': dict(
    technique='Hypothesis-generated programs x populations, trace equality against an independent reference interpreter (differential), statement-level shrinking',
    category='exploration',
    text='Generated search over compositions of all documented statement forms; each case compares every device request, delay and printed value with the reference. Bounded by generator sizes (about 40 statements, nesting 3); says nothing beyond what was generated.',
    design='DESIGN.md section 3, C01',
    note='Trusts the reference interpreter (verif/lang/ref.py, written from docs/language.rst, DESIGN Appendix A), the printer (Appendix B) and the simulated lifxlan boundary; undefined behaviour is discarded and counted, never asserted.'),
 'C03': dict(
    technique='Hypothesis-generated routine-heavy programs (name collisions by construction), trace equality against the reference interpreter',
    category='exploration',
    text='Generated search focused on scopes: parameters named like globals, assignments in loops in routines, returns from inside loops, nested and recursive calls, with every variable printed after each call.',
    design='DESIGN.md section 3, C03',
    note='Trusts the reference interpreter (verif/lang/ref.py, written from docs/language.rst, DESIGN Appendix A), the printer (Appendix B) and the simulated lifxlan boundary; undefined behaviour is discarded and counted, never asserted.'),
 'C04': dict(
    technique='Hypothesis-generated loop-heavy programs over generated populations, trace equality against the reference interpreter',
    category='exploration',
    text='Generated search over every repeat form, counts 0..5, both directions, nesting to 4, breaks, light lists over 0..8 lights; iteration counts and loop values compared with the documented formulae.',
    design='DESIGN.md section 3, C04',
    note='Trusts the reference interpreter (verif/lang/ref.py, written from docs/language.rst, DESIGN Appendix A), the printer (Appendix B) and the simulated lifxlan boundary; undefined behaviour is discarded and counted, never asserted.'),
 'C02': dict(
    technique='Hypothesis-generated typed expression trees embedded in every legal value position, compared with an independent evaluator; builtin grids against math.*; statistical coverage check for [random a b]',
    category='exploration',
    text='Generated search over expression trees (depth <= 6, minimal and redundant parentheses); every ordered pair of adjacent operator classes is required to occur (asserted minimum counts); each tree is observed through up to 13 syntactic positions in one run. random: 300 draws per range, all values must occur and none outside.',
    design='DESIGN.md section 3, C02',
    note='Trusts the reference evaluator (Python int/float arithmetic) and the printer; -a^b, % on negatives, sqrt(<0), round ties are not asserted.'),
 'C13': dict(
    technique='Hypothesis rule-based state machine against a dict model with invariants after every step; exhaustive enumeration of all short histories over a 2x2x2 alphabet; SortedList compared with a sorted Python list incl. simulated in-progress iteration',
    category='exploration',
    text='Model-based stateful testing of the production LightSet/LifxLanApi over the simulated LAN with a virtual clock; every invariant of the property is evaluated after every step. Short histories are enumerated completely; long ones sampled.',
    design='DESIGN.md section 3, C13',
    note='Trusts the dict model in verif/checks/c13.py and the virtual time source substituted for bardolph.controller.light.time.'),
 'C17': dict(
    technique='Hypothesis-generated histories (compile sequences incl. damaged texts; repeated / stopped / reloaded executions; job sequences) compared differentially with fresh objects',
    category='exploration',
    text='Differential: the same text or job is observed after a generated history and on fresh objects; any difference in result, error text, listing, trace, time-pattern tables or stdout is a violation. No reference semantics needed, so nothing is discarded.',
    design='DESIGN.md section 3, C17',
    note='Trusts the harness reset of simulated device state between runs; crashes during parse are compared by exception type only.'),
 'C12': dict(
    technique='differential fault injection: Hypothesis-generated scripts x generated per-request fault plans at the lifxlan boundary, compared with the fault-free run (itself checked against the reference interpreter); exhaustive enumeration of single-fault discovery scenarios',
    category='fault_enumeration',
    text='Faults are injected per attempt of individual logical requests (first 1, 2 or 3 attempts fail) on generated subsets of devices; the discovery fault space (device x request x attempts x before/after a good discovery) is enumerated completely for a 4-light population. Script-level fault plans are sampled, not enumerated.',
    design='DESIGN.md section 3, C12',
    note='Fault model is WorkflowException at the simulated lifxlan object; logical-request boundaries come from thin marker wrappers around bardolph.controller.lifx_lan_light methods; retry bound taken from the property text (three attempts).'),
 'C05': dict(
    technique='generated programs; (a) structural relocation-map check plus exhaustive abstract exploration of the loaded instruction graph taking both arms of every conditional jump; (b) exhaustive enumeration of all 2^k decision tapes per program with conditions replaced by an injected [coin] built-in, differential against the reference interpreter',
    category='exploration',
    text='Per generated script ALL control-flow paths of the compiled image are covered twice: statically (every reachable abstract state (pc, frame stack) is visited, recursion depth <= 3) and dynamically (all 2^k condition outcomes, k = 6 quick / 8 thorough, run on the real VM). The set of scripts is sampled by Hypothesis.',
    design='DESIGN.md section 3, C05',
    note='Static part trusts the op-code semantics table in verif/checks/c05.py (JUMP/JSR/CTX/RETURN/END/LOOP/END_LOOP) and is independent of values; dynamic part trusts the reference interpreter. Routines defined inside if/repeat bodies (once an open finding) are generated again since the loader was repaired.'),
 'C06': dict(
    technique='fuzzing with the oracle inside the target: Hypothesis token soup / mutations of valid scripts / raw noise / rule breakers by construction / valid control-heavy programs / loosely grammatical programs (language shapes placed without regard to context or type, ~22 % accepted) / deep nesting / files of arbitrary bytes; atheris (libFuzzer) coverage-guided campaigns in the thorough tier; exception bucketing by (type, innermost bardolph frame); token-level ddmin shrinking',
    category='exploration',
    text='Totality and validity search: every input must end in accept or a line-numbered rejection within a token-step bound; rejected texts yield no program; accepted texts are executed under an instruction budget and must not hit an internal VM fault; texts built to break one documented rule must be rejected.',
    design='DESIGN.md section 3, C06',
    note='Internal VM faults are recognised from the exception raised inside the dispatch (op-code table, missing routine, eval/call-stack underflow, pc outside image); ordinary run-time errors of a script are not counted. atheris campaigns are only approximately reproducible: the saved input is the reproducible unit.'),
 'C16': dict(
    technique='metamorphic re-layout of generated programs (listing equality), exhaustive enumeration of all identifiers up to length 2 and all case variants of every keyword / internal name in five usage templates, Hypothesis-generated identifiers and Unicode strings',
    category='exploration',
    text='Re-layouts (white space, no space next to marks, comments, abbreviations, bracketed calls) must compile to the identical listing; braces round single values to identical behaviour. Identifiers: the full set of names of length <= 2 plus every case variant of every reserved-looking word is enumerated in variable / macro / parameter / routine / loop-variable roles; longer names and strings are sampled.',
    design='DESIGN.md section 3, C16',
    note='Strings ending in a backslash are a recorded open finding (undocumented escape) and excluded from generation while it is open; CR/VT/FF/NEL/LS/PS are treated as line breaks and not generated inside strings.'),
 'C15': dict(
    technique='Hypothesis-generated zone / matrix-addressing programs over generated device sizes, compared with the reference interpreter\'s model matrix with zero colour tolerance (exact Fraction conversion)',
    category='exploration',
    text='Generated search over stage-rectangle sequences (0..8 per block, either order, omitted parts, literal / variable / expression / loop-index bounds incl. float indices), inline and block forms, default fill, all unit modes, on matrix sizes 1x1..16x4/8x8 and strips of 1..82 zones; every tile message is compared cell by cell.',
    design='DESIGN.md section 3, C15',
    note='Trusts the reference interpreter\'s matrix model and units_exact; indices outside the device are not generated (undocumented). One open finding (zone value computed by a routine that names a light) is reported as KNOWN-FINDING by a fixed case.'),
 'C18': dict(
    technique='round-trip property: capture (ScriptSnapshot and WebApp.snapshot) -> text -> production compile+run -> device state, over Hypothesis-generated populations, raw states and hostile light names',
    category='exploration',
    text='Round trip through text generation, lexing, compiling, unit handling and execution for generated populations of plain / multizone / matrix lights in arbitrary raw states; final device state must equal the captured state exactly.',
    design='DESIGN.md section 3, C18',
    note='State is read from the simulated lifxlan devices; names contain no double quote or line break; the web path replays the file the shipped manifest Retrieve entry names; populations may be empty.'),
 'C14': dict(
    technique='metamorphic relation between two executions (with / without a chain of units statements) over Hypothesis-generated in-range register contents; register rewrite table checked against the documented table',
    category='exploration',
    text='For generated register contents on fine grids and chains of up to four transitions the transmitted colour, duration and pending delay are compared between the two runs (colour-space distance when rgb is involved); a second script prints all nine registers round one switch and the set of rewritten registers must be inside the documented set, kelvin untouched, identity switch a no-op.',
    design='DESIGN.md section 3, C14',
    note='Tolerances: 1 raw unit per non-rgb transition; 8/65535 per RGB channel per rgb transition (one raw unit of hue moves a channel by up to 6/65535); 1 ms for times.'),
 'C19': dict(
    technique='model-based: Hypothesis-generated output statement sequences with typed values and format strings, production stdout binding captured, compared with a stdout model over the reference interpreter\'s values; program order checked by stdout length at each device command',
    category='exploration',
    text='Generated sequences of print / println / printf with all value kinds and field styles (anonymous, numbered incl. repeated, named, format specs), including routines that print while being evaluated as printf arguments; the exact text on sys.stdout and its interleaving with device commands are compared with the model.',
    design='DESIGN.md section 3, C19',
    note='A single trailing newline at the end is accepted either way. Standard output is a buffering stand-in: only flushed text counts as written, both at each device command and at the end of the script.'),
 'C20': dict(
    technique='Hypothesis rule-based state machine over the production front end / web app / JobControl with a stub flask, recording jobs and cooperative job threads, compared with a dict/list model after every step',
    category='exploration',
    text='Stateful model-based testing over generated manifests (hostile strings) and request sequences interleaved with job completions; jobs created, the file each is built from, queue / current / background state, stop requests per job, escaped strings handed to templates, default path/title and status/capture rendering are compared with the model after every step.',
    design='DESIGN.md section 3, C20',
    note='Flask and Jinja are not installed: flask is stubbed and escaping is asserted at construction of the script controls. Thread interleavings are out of scope here (C08/C09). The shipped web/manifest.json is additionally clicked through the routes front_end registers.'),
 'C08': dict(
    technique='(plus the documented command line lsrun a.ls b.ls ... in a real process with generated scripts) schedule exploration on a deterministic thread scheduler (real threads, one runnable at a time, yield before every source line of job_control.py and at every lock/thread operation): Hypothesis-generated scenarios x schedules, plus exhaustive enumeration of all schedules with <= 1 (quick) / <= 2 (thorough) preemptions for fixed scenarios; history checked by a Wing-Gong linearisability search against a deque model and invariants',
    category='exploration',
    text='The scheduler owns every thread switch, so interleavings between the individual statements of the controller are generated, enumerated for small scenarios, and replayable. Mutual exclusion, start order (linearisable w.r.t. add/insert), exactly-once, drain at quiescence, is_running observations, deadlock and lost wake-ups are checked on every explored schedule.',
    design='DESIGN.md sections 2.6 and 3, C08',
    note='Switches at source-line granularity in job_control.py and at shim calls (threading.Thread/RLock/Event, time); CPython byte-code level races inside one line are out of reach. Shims model RLock/Event/Thread/sleep as bardolph uses them.'),
 'C09': dict(
    technique='schedule exploration on the deterministic scheduler over the real JobControl / ScriptJob / Machine / lib.clock.Clock in virtual time: Hypothesis-generated scenarios (script shape, stop kind, stop moment, tick, device work) x schedules (step preemptions, choices, line-conditioned switches); bounded-liveness and device-log oracle',
    category='exploration',
    text='Stops are delivered before the run loop, between instructions, inside delays, inside time-of-day waits and as the script finishes, under generated and (thorough) enumerated single preemptions; each run is checked for promptness in virtual time, at most one further command, the fate of the next / queued / re-queued job, and for deadlock or a lost stop (step limit).',
    design='DESIGN.md sections 2.6 and 3, C09',
    note='"Promptly" is bounded liveness (two ticks + command in progress, step budget). All lost-stop findings are repaired; the quick tier enumerates the races with the end of a job (one and two preemptions), the hand-over to the next queued job and stop-all with a queued job.'),
 'C10': dict(
    technique='discrete-event oracle in virtual time over the real Machine / Clock / JobControl on the deterministic scheduler: Hypothesis-generated delay / work / time-of-day sequences, tick lengths, wall-clock starts and clock-vs-script preemptions',
    category='exploration',
    text='For generated scripts every delay request (value, call time, return time), every tick and every clock reset is recorded in exact virtual time and compared with the cumulative due times D_k: never early, immediate when already behind (no accumulated lateness), at a tick no later than D_k + 1 tick (2 under preemption), no request for a zero delay, raw units in milliseconds, time-of-day waits end within 2 ticks of the first matching minute and restart the time line.',
    design='DESIGN.md sections 2.6 and 3, C10',
    note='Computation is instantaneous in virtual time except for device work charged by the simulated devices; durations are dyadic so the comparisons are exact.'),
}
PENDING_REASON = 'check not built yet in this session; planned as described in DESIGN.md (property-based / fuzzing check, same runner)'

props = [json.loads(l)['id'] for l in open(os.path.join(ROOT, 'properties.jsonl'))]
manifest = {
 'version': 1,
 'setup_cmd': './check --setup',
 'hooks': {'guard': 'AL_FONTES_JR_BARDOLPH_VERIF', 'enable': 'no source hooks: checks import /repo as it is and use public classes, module attributes and the injection container; ./check exports AL_FONTES_JR_BARDOLPH_VERIF=1 for uniformity',
           'baseline_off_cmd': BASELINE, 'source_commits': [], 'add_only': True},
 'engines': [{'name': 'verif', 'path': 'verif/', 'serves_properties': sorted(CHECKS),
              'kind_free_text': 'Hypothesis property-based / stateful testing, exhaustive enumeration of finite domains, atheris fuzzing; simulated lifxlan boundary; reference interpreter; deterministic thread scheduler'}],
 'checks': [],
 'not_applicable': [],
 'notes': 'All checks: ./check <ID> --tier quick|thorough, VERIF_SEED honoured; exit 0/1/2 = held / violation / harness error. known_findings.json lists fixed and open findings; replays/<ID>/*.json are regression inputs.',
}
for pid in props:
    c = CHECKS.get(pid)
    if c is None:
        manifest['not_applicable'].append({'property_id': pid, 'reason': PENDING_REASON})
        continue
    manifest['checks'].append({
        'property_id': pid,
        'quick_cmd': './check {} --tier quick'.format(pid),
        'thorough_cmd': './check {} --tier thorough'.format(pid),
        'evidence_file': 'evidence/{}.json'.format(pid),
        'replay_cmd_template': './check {} --replay {{path}}'.format(pid),
        'engine': 'verif',
        'level_claimed': {'category': c['category'], 'text': c['text'], 'design_ref': c['design']},
        'level_note': c['note'],
        'technique': c['technique'],
    })
json.dump(manifest, open(os.path.join(ROOT, 'MANIFEST.json'), 'w'), indent=1)
open(os.path.join(ROOT, 'MANIFEST.json'), 'a').write('\n')
print('checks:', [c['property_id'] for c in manifest['checks']], 'n/a:', len(manifest['not_applicable']))
