#!/venv/bin/python -B
"""dev helper: run one shard of a program check inline and print the failures.
usage: dev_shard.py C01 <seed> <examples> [maxchars]"""
import sys, os
sys.path.insert(0, os.path.dirname(os.path.dirname(os.path.abspath(__file__))))
if os.environ.get('PYTHONHASHSEED') != '0':
    os.environ['PYTHONHASHSEED'] = '0'
    os.execv(sys.executable, [sys.executable, '-B'] + sys.argv)
import warnings; warnings.simplefilter('ignore')
from verif import env
import importlib
mod = importlib.import_module('verif.checks.' + sys.argv[1].lower())
spec = {'seed': int(sys.argv[2]), 'examples': int(sys.argv[3])}
if len(sys.argv) > 5: spec['kind'] = sys.argv[5]
acc = mod.run_shard(spec)
limit = int(sys.argv[4]) if len(sys.argv) > 4 else 1200
print('evaluations', acc.evaluations, 'nontrivial', len(acc.nontrivial), 'discarded', acc.discarded)
print({k: v for k, v in acc.labels.items() if k.startswith('discard')})
for sig, f in acc.failures.items():
    print('====', sig, '(+{} more)'.format(acc.excluded.get(sig, 0)))
    print(f['what'][:limit])
