#!/usr/bin/env python3
"""Confirm a sub-agent's seeded change and run checks against it.
usage: seedtest.py <PROP> <A|B> <CHECK>[,<CHECK>...] [--tier quick|thorough] [--keep]
 1. in the agent's scratch worktree /tmp/seed/<PROP>: demo passes clean, fails with the patch, pytest still passes
 2. git -C /repo apply the patch, run the checks, git -C /repo checkout -- .
 3. with --keep: store it under /verif/seeded/<PROP>-<X>/
"""
import json, os, shutil, subprocess, sys
prop, which, checks = sys.argv[1:4]
tier = sys.argv[sys.argv.index('--tier') + 1] if '--tier' in sys.argv else 'quick'
rnd = sys.argv[sys.argv.index('--round') + 1] if '--round' in sys.argv else ''
wt = '/tmp/seed%s/' % rnd + prop
seed = os.path.join(wt, '_seed')
patch = os.path.join(seed, 'patch_%s.diff' % which)
demo = os.path.join('_seed', 'demo_%s.py' % which)
PYTEST = '/venv/bin/python -m pytest -q -p no:cacheprovider --timeout=900 -x --deselect tests/script_test.py --deselect tests/trace_test.py'
def sh(cmd, cwd=None):
    p = subprocess.run(cmd, shell=True, cwd=cwd, capture_output=True, text=True)
    return p.returncode, (p.stdout + p.stderr)
report = {}
if sh('git -C /repo status --porcelain --untracked-files=no')[1].strip():
    sys.exit('/repo has uncommitted changes; commit or stash them first (this tool reverts the working tree)')
if os.path.isdir(wt) and '--skip-confirm' not in sys.argv:
    sh('git checkout -- . ', wt)
    rc, out = sh('/venv/bin/python ' + demo, wt); report['demo_clean'] = rc
    rc2, _ = sh('git apply ' + patch, wt); assert rc2 == 0, 'patch does not apply in worktree'
    rc, out = sh('/venv/bin/python ' + demo, wt); report['demo_patched'] = rc; report['demo_out'] = out.strip().splitlines()[-3:]
    rc, out = sh(PYTEST, wt); report['pytest_patched'] = out.strip().splitlines()[-1]
    sh('git checkout -- .', wt)
    print('confirm: demo clean rc=%s patched rc=%s; pytest: %s' % (report['demo_clean'], report['demo_patched'], report['pytest_patched']))
SCRATCH = '--scratch' in sys.argv   # a scratch worktree of /repo HEAD instead of /repo itself (checks get VERIF_REPO)
TARGET = '/repo'
ENV = dict(os.environ)
if SCRATCH:
    TARGET = '/tmp/seedrun-%s%s%s' % (prop, which, rnd)
    sh('git -C /repo worktree remove --force ' + TARGET)
    rc, out = sh('git -C /repo worktree add --detach %s HEAD' % TARGET); assert rc == 0, out
    ENV['VERIF_REPO'] = TARGET
    ENV['VERIF_WORK'] = TARGET + '-work'
    ENV['VERIF_EVIDENCE_DIR'] = TARGET + '-work/evidence'
alt = os.path.join('/verif/seeded', '%s-%s%s' % (prop, which, rnd), 'patch.diff')
if not os.path.exists(patch) and os.path.exists(alt):
    patch = alt             # the author's worktree is gone: use the stored copy
    STORED_ONLY = True
rc, out = sh('git -C %s apply ' % TARGET + patch)
if rc != 0 and os.path.exists(alt):
    patch_used = alt        # a copy ported by hand to the current tree
    rc, out = sh('git -C %s apply ' % TARGET + alt)
if rc != 0:
    sh('git -C /repo worktree remove --force ' + TARGET) if SCRATCH else sh('git -C /repo reset -q && git -C /repo checkout -- .')
    sys.exit('patch does not apply to /repo (port it by hand into %s): %s' % (alt, out))
results = {}
try:
    for check in checks.split(','):
        p = subprocess.run(['/verif/check', check, '--tier', tier], capture_output=True, text=True, cwd='/verif', env=ENV)
        lines = [l for l in p.stdout.splitlines() if l.startswith(('VIOLATION', 'violation'))]
        results[check] = {0: 'MISSED', 1: 'CAUGHT'}.get(p.returncode, 'ERROR')
        print('{} [{}] exit={} {}'.format(check, tier, p.returncode, results[check]))
        for l in lines[:3]: print('   ', l[:260])
        if p.returncode == 2: print(p.stderr[-1200:])
finally:
    if SCRATCH:
        sh('git -C /repo worktree remove --force ' + TARGET); sh('rm -rf ' + TARGET + '-work')
    else:
        sh('git -C /repo reset -q && git -C /repo checkout -- .')
        print(sh('git -C /repo status --short --untracked-files=no')[1].strip() or 'repo clean')
    sh('rm -rf /verif/replays/*/[!fo]*-????????.json')
if '--keep' in sys.argv and 'STORED_ONLY' in globals():
    dst = os.path.dirname(alt)
    meta = json.load(open(os.path.join(dst, 'meta.json')))
    meta['check_results'].update({'%s:%s' % (k, tier): v for k, v in results.items()})
    json.dump(meta, open(os.path.join(dst, 'meta.json'), 'w'), indent=1)
elif '--keep' in sys.argv:
    dst = '/verif/seeded/%s-%s%s' % (prop, which, rnd); os.makedirs(dst, exist_ok=True)
    if not os.path.exists(os.path.join(dst, 'patch.diff')) or open(os.path.join(dst, 'patch.diff')).read() == open(patch).read() or True:
        pass
    if not (os.path.exists(alt) and rc == 0 and 'patch_used' in globals()):
        shutil.copy(patch, os.path.join(dst, 'patch.diff'))
    shutil.copy(os.path.join(wt, demo), os.path.join(dst, 'demo.py'))
    meta = json.load(open(os.path.join(seed, 'meta.json')))
    ch = [c for c in meta['changes'] if c['name'] == which][0]
    prev = {}
    if os.path.exists(os.path.join(dst, 'meta.json')): prev = json.load(open(os.path.join(dst, 'meta.json')))
    res = prev.get('check_results', {}); res.update({'%s:%s' % (k, tier): v for k, v in results.items()})
    json.dump({'property': prop, 'change': which, 'files': ch.get('files'), 'what': ch.get('what'), 'needs': ch.get('needs'),
               'author': 'independent sub-agent given only the property text and a scratch worktree',
               'confirmed': report or prev.get('confirmed'), 'check_results': res,
               'how_to_run': 'git -C /repo apply seeded/%s-%s%s/patch.diff; ./check <ID> --tier quick; git -C /repo checkout -- .' % (prop, which, rnd)},
              open(os.path.join(dst, 'meta.json'), 'w'), indent=1)
