#!/usr/bin/env python3
"""Writes the hand-made regression replays for fixed findings (program checks)."""
import json, os
ROOT = os.path.dirname(os.path.dirname(os.path.abspath(__file__)))
def w(prop, name, what, program, population, extra=None):
    d = os.path.join(ROOT, 'replays', prop); os.makedirs(d, exist_ok=True)
    case = {'program': program, 'population': population}
    case.update(extra or {})
    with open(os.path.join(d, name + '.json'), 'w') as f:
        json.dump({'property': prop, 'sig': 'regression', 'what': what, 'case': case}, f, indent=1, sort_keys=True); f.write('\n')
N = lambda v: ['num', str(v)]
V = lambda n: ['var', n]
S = lambda s: ['str', s]
def light(label, group='G1', location='L1', kind='plain', **kw):
    d = {'label': label, 'group': group, 'location': location, 'kind': kind, 'color': [100, 200, 300, 3500], 'power': 0}; d.update(kw); return d
POP = [light('A'), light('B', 'G1', 'L2'), light('C', 'G2', 'L2'), light('Z', 'G2', 'L1', 'mz', zones=8), light('M', 'G3', 'L1', 'matrix', height=3, width=4)]
setA = ['action', 'set', [['light', S('A')]]]

w('C01', 'fixed-matrix-block-in-routine-forgets-params', "a matrix block inside a routine made the routine's parameters unknown to the compiler",
  [['routine', 'r1', ['a'], [['action', 'set', [['matrix_block', S('M'), [['stage', [N(1), None], None, 'rc']]]]], ['setreg', 'hue', V('a')], setA]],
   ['call', 'r1', [N(120)]]], POP)
w('C01', 'fixed-print-inside-printf-argument', 'print in a function called from a printf argument printed the wrong value and aborted the printf',
  [['routine', 'f1', ['a'], [['print', S('text')], ['return', ['bin', '+', V('a'), N(1)]]]],
   ['printf', S('v {} {}'), [N(6), ['call', 'f1', [N(9)]]]], setA], POP)
w('C03', 'fixed-return-inside-loop', "'return' inside a repeat loop aborted the whole script",
  [['routine', 'f1', ['a'], [['repeat', ['count', N(3)], [['if', ['bin', '>', V('a'), N(0)], [['return', N(7)]], None]]], ['return', N(1)]]],
   ['print', ['call', 'f1', [N(2)]]], setA, ['println', N(5)]], POP)
w('C03', 'fixed-param-assigned-in-loop-writes-global', 'assigning to a parameter inside a loop wrote the hidden global',
  [['assign', 'x', N(100)],
   ['routine', 'r1', ['x'], [['repeat', ['count', N(2)], [['assign', 'x', ['bin', '+', V('x'), N(1)]]]], ['println', V('x')]]],
   ['call', 'r1', [N(5)]], ['println', V('x')]], POP)
w('C03', 'fixed-argument-shadowed-by-earlier-parameter', "an argument naming a global was read from the callee's earlier parameter (call made inside a routine)",
  [['assign', 'x', N(100)],
   ['routine', 'r1', ['x', 'y'], [['println', V('x')], ['println', V('y')]]],
   ['routine', 'r2', ['a'], [['call', 'r1', [N(1), V('x')]]]],
   ['call', 'r2', [N(0)]]], POP)
w('C04', 'fixed-cycle-ignores-raw-units', "'repeat n with v cycle' spanned 360 in raw units",
  [['units', 'raw'], ['repeat', ['cycle', N(4), 'a', None], [['println', V('a')]]]], POP)
w('C04', 'fixed-cycle-with-zero-count', "'repeat 0 with v cycle' aborted with a division by zero",
  [['repeat', ['cycle', N(0), 'a', None], [['println', V('a')]]], setA,
   ['repeat', ['list', [['group', S('Nowhere')]], 'lt1', ['cycle', 'b', None]], [['action', 'on', [['light', V('lt1')]]]]], ['println', N(1)]], POP)
w('C04', 'fixed-break-in-inner-light-loop', 'break inside an inner light-list loop made the outer list continue with the wrong light',
  [['repeat', ['all', 'lt1', None], [['action', 'set', [['light', V('lt1')]]],
     ['repeat', ['all', 'lt2', None], [['break']]]]]], POP)
w('C04', 'fixed-return-in-light-loop-leaves-names', 'return inside a light-list loop left names on the evaluation stack of the caller',
  [['routine', 'f1', [], [['repeat', ['all', 'lt2', None], [['return', N(1)]]], ['return', N(2)]]],
   ['repeat', ['all', 'lt1', None], [['print', ['bin', '+', N(10), ['call', 'f1', []]]], ['action', 'on', [['light', V('lt1')]]]]]], POP)
w('C15', 'fixed-matrix-cell-rounded-before-conversion', 'a logical hue of 77.5 in a stage was rounded to 78 before conversion to raw',
  [['setreg', 'hue', ['num', '77.5']], ['setreg', 'saturation', N(100)], ['setreg', 'brightness', ['num', '33.3']], ['setreg', 'kelvin', N(2700)],
   ['action', 'set', [['matrix_block', S('M'), [['stage', [N(1), None], [N(0), N(2)], 'rc']]]]]], POP)
w('C15', 'fixed-float-loop-index-as-row', "'repeat 3 with r from 0 to 2 begin stage row r end' aborted: the interpolated index is a float",
  [['action', 'set', [['matrix_block', S('M'), [['repeat', ['interp', N(3), 'a', N(0), N(2)], [['stage', [V('a'), None], None, 'rc']]]]]]]], POP)
print('ok')
