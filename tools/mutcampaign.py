#!/usr/bin/env python3
"""Random first-order mutants of the production code against the quick tier.

usage: mutcampaign.py <seed> <count> [--out FILE] [--files a.py,b.py]

Each mutant (one operator / constant / condition changed, chosen by a PRNG
seeded with <seed>) is written into a scratch worktree of /repo HEAD, never
into /repo.  Mutants the repository's own tests kill are set aside; for the
others the quick checks run (most relevant first) until one reports a
violation.  Survivors are listed for reading: equivalent, outside the twenty
properties, or a gap.
"""
import ast
import json
import os
import random
import subprocess
import sys

FILES = {
    'bardolph/parser/parse.py': 'C06,C01,C16,C05,C04,C03,C02,C19,C15,C17,C11',
    'bardolph/parser/code_gen.py': 'C01,C05,C04,C03,C02,C17,C15,C19',
    'bardolph/parser/lex.py': 'C16,C06,C11,C01,C19',
    'bardolph/parser/expr_parser.py': 'C02,C06,C16,C01',
    'bardolph/parser/context.py': 'C03,C06,C16,C01,C17',
    'bardolph/parser/io_parser.py': 'C19,C06,C16,C17',
    'bardolph/parser/loop_parser.py': 'C04,C06,C05,C01,C16,C17',
    'bardolph/parser/matrix_parser.py': 'C15,C06,C16,C17',
    'bardolph/parser/token.py': 'C16,C06,C02',
    'bardolph/lib/symbol_table.py': 'C03,C06,C16',
    'bardolph/controller/routine.py': 'C03,C05,C06',
    'bardolph/controller/run.py': 'C08',
    'bardolph/vm/instruction.py': 'C05,C01,C17',
    'bardolph/vm/machine.py': 'C01,C05,C07,C15,C17,C12,C09,C04,C03,C14,C19',
    'bardolph/vm/loader.py': 'C05,C01,C03,C17',
    'bardolph/vm/vm_math.py': 'C02,C01,C04',
    'bardolph/vm/call_stack.py': 'C03,C05,C01,C04,C17',
    'bardolph/vm/vm_discover.py': 'C04,C13,C01,C12',
    'bardolph/vm/vm_io.py': 'C19,C01,C17',
    'bardolph/vm/eval_stack.py': 'C02,C01,C05',
    'bardolph/runtime/bardolph_math.py': 'C02,C01',
    'bardolph/runtime/bardolph_fn.py': 'C02,C01',
    'bardolph/controller/units.py': 'C07,C14,C15,C18,C01',
    'bardolph/controller/light_set.py': 'C13,C12,C04,C01',
    'bardolph/controller/light.py': 'C12,C07,C15,C01,C18',
    'bardolph/controller/lifx_lan_light.py': 'C15,C12,C18,C07',
    'bardolph/controller/color_matrix.py': 'C15,C18,C07',
    'bardolph/controller/lifx_lan_api.py': 'C13,C12',
    'bardolph/controller/snapshot.py': 'C18,C20',
    'bardolph/controller/script_job.py': 'C17,C09,C08,C01,C06',
    'bardolph/lib/job_control.py': 'C08,C09,C20,C17',
    'bardolph/lib/clock.py': 'C10,C09,C11',
    'bardolph/lib/time_pattern.py': 'C11,C10,C06',
    'bardolph/lib/sorted_list.py': 'C13,C04',
    'bardolph/lib/color.py': 'C07,C14,C15',
    'bardolph/lib/retry.py': 'C12',
    'bardolph/lib/std_out_output.py': 'C19',
    'web/web_app.py': 'C20,C18',
    'web/front_end.py': 'C20',
}
ALL = ['C%02d' % i for i in range(1, 21)]
PYTEST = ('/venv/bin/python -m pytest -q -p no:cacheprovider --timeout=900 -x '
          '--deselect tests/script_test.py --deselect tests/trace_test.py')

CMP = {ast.Eq: ast.NotEq, ast.NotEq: ast.Eq, ast.Lt: ast.LtE, ast.LtE: ast.Lt,
       ast.Gt: ast.GtE, ast.GtE: ast.Gt, ast.Is: ast.IsNot, ast.IsNot: ast.Is,
       ast.In: ast.NotIn, ast.NotIn: ast.In}
BIN = {ast.Add: ast.Sub, ast.Sub: ast.Add, ast.Mult: ast.FloorDiv,
       ast.Div: ast.Mult, ast.Mod: ast.FloorDiv, ast.FloorDiv: ast.Mod}


def sites(tree):
    found = []
    for node in ast.walk(tree):
        if isinstance(node, ast.Compare) and type(node.ops[0]) in CMP:
            found.append(('cmp', node))
        elif isinstance(node, ast.BoolOp):
            found.append(('bool', node))
        elif isinstance(node, ast.UnaryOp) and isinstance(node.op, ast.Not):
            found.append(('not', node))
        elif isinstance(node, ast.BinOp) and type(node.op) in BIN and not (
                isinstance(node.left, ast.Constant)
                and isinstance(node.left.value, str)):
            found.append(('bin', node))
        elif isinstance(node, ast.Constant) and type(node.value) is int \
                and abs(node.value) < 100000:
            found.append(('int', node))
        elif isinstance(node, ast.Constant) and type(node.value) is bool:
            found.append(('flag', node))
        elif isinstance(node, ast.If) and not node.orelse:
            found.append(('if-never', node))
        elif isinstance(node, ast.Expr) and isinstance(node.value, ast.Call):
            found.append(('drop-call', node))
        elif isinstance(node, (ast.Break, ast.Continue)):
            found.append(('swap-break', node))
    return found


def mutate(kind, node, rng):
    if kind == 'cmp':
        node.ops[0] = CMP[type(node.ops[0])]()
    elif kind == 'bool':
        node.op = ast.Or() if isinstance(node.op, ast.And) else ast.And()
    elif kind == 'not':
        node.op = ast.UAdd()
        node.__class__ = ast.UnaryOp
        # `not x` -> `bool(+0) or x`-free form: simply x
        replacement = node.operand
        node.__dict__.update(replacement.__dict__)
        node.__class__ = replacement.__class__
    elif kind == 'bin':
        node.op = BIN[type(node.op)]()
    elif kind == 'int':
        node.value = node.value + rng.choice([1, -1])
    elif kind == 'flag':
        node.value = not node.value
    elif kind == 'if-never':
        node.test = ast.Constant(value=False)
    elif kind == 'drop-call':
        node.value = ast.Constant(value=None)
    elif kind == 'swap-break':
        node.__class__ = ast.Continue if isinstance(node, ast.Break) \
            else ast.Break


def sh(cmd, cwd=None, env=None):
    p = subprocess.run(cmd, shell=True, cwd=cwd, env=env, capture_output=True,
                       text=True)
    return p.returncode, p.stdout + p.stderr


def main():
    seed_value, count = int(sys.argv[1]), int(sys.argv[2])
    out = sys.argv[sys.argv.index('--out') + 1] if '--out' in sys.argv \
        else '/tmp/mutcampaign-%d.jsonl' % seed_value
    files = sorted(FILES)
    if '--files' in sys.argv:
        files = sys.argv[sys.argv.index('--files') + 1].split(',')
    rng = random.Random(seed_value)
    scratch = '/tmp/mutc-%d' % seed_value
    sh('git -C /repo worktree remove --force ' + scratch)
    rc, text = sh('git -C /repo worktree add --detach %s HEAD' % scratch)
    assert rc == 0, text
    env = dict(os.environ, VERIF_REPO=scratch, VERIF_WORK=scratch + '-work',
               VERIF_EVIDENCE_DIR=scratch + '-work/evidence')
    try:
        for number in range(count):
            path = rng.choice(files)
            full = os.path.join(scratch, path)
            source = open(full).read()
            tree = ast.parse(source)
            candidates = sites(tree)
            if not candidates:
                continue
            kind, node = rng.choice(candidates)
            line = node.lineno
            before = source.splitlines()[line - 1].strip()
            mutate(kind, node, rng)
            try:
                mutated = ast.unparse(ast.fix_missing_locations(tree))
                compile(mutated, path, 'exec')
            except Exception as ex:     # noqa
                continue
            record = {'n': number, 'file': path, 'line': line, 'kind': kind,
                      'before': before}
            open(full, 'w').write(mutated + '\n')
            rc, diff = sh('git diff -U0 --ignore-all-space', scratch)
            rc, text = sh(PYTEST, scratch)
            record['tests'] = text.strip().splitlines()[-1][:80]
            if rc != 0:
                record['result'] = 'killed-by-tests'
            else:
                order = FILES.get(path, '').split(',')
                order += [c for c in ALL if c not in order]
                record['result'] = 'SURVIVED'
                record['ran'] = []
                for check in order:
                    p = subprocess.run(
                        ['/verif/check', check, '--tier', 'quick'],
                        capture_output=True, text=True, cwd='/verif', env=env)
                    record['ran'].append(check)
                    if p.returncode == 1:
                        record['result'] = 'caught:' + check
                        lines = [l for l in p.stdout.splitlines()
                                 if l.startswith('violation')]
                        record['violation'] = (lines or [''])[0][:200]
                        break
                    if p.returncode != 0:
                        record['result'] = 'harness-error:' + check
                        record['stderr'] = p.stderr[-600:]
                        break
            sh('git checkout -- .', scratch)
            sh('rm -rf /verif/replays/*/[!fo]*-????????.json')
            with open(out, 'a') as dst:
                dst.write(json.dumps(record) + '\n')
            print(json.dumps(record)[:300], flush=True)
    finally:
        sh('git -C /repo worktree remove --force ' + scratch)
        sh('rm -rf ' + scratch + '-work')


if __name__ == '__main__':
    main()
