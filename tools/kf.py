#!/usr/bin/env python3
"""Maintain /verif/known_findings.json (never used at check run time).
usage: kf.py fixed <PROP> <id> <commit> <replay> <what...>
       kf.py open  <PROP> <id> <replay> <avoid,flags|-> <sig1,sig2|-> <what...>
"""
import json, os, sys
PATH = os.path.join(os.path.dirname(os.path.dirname(os.path.abspath(__file__))), 'known_findings.json')
data = json.load(open(PATH)) if os.path.exists(PATH) else {'format': 'one entry per finding; "line" is the human-readable record', 'findings': []}
kind = sys.argv[1]
if kind == 'fixed':
    prop, fid, commit, replay = sys.argv[2:6]; what = ' '.join(sys.argv[6:])
    entry = {'property': prop, 'id': fid, 'status': 'fixed', 'commit': commit, 'replay': replay, 'what': what,
             'line': 'fixed: property={} {} {}'.format(prop, commit, what)}
else:
    prop, fid, replay, avoid, sigs = sys.argv[2:7]; what = ' '.join(sys.argv[7:])
    entry = {'property': prop, 'id': fid, 'status': 'open', 'replay': replay, 'what': what,
             'avoid': [] if avoid == '-' else avoid.split(','), 'sigs': [] if sigs == '-' else sigs.split(','),
             'line': 'KNOWN-FINDING: property={} {}'.format(prop, what)}
data['findings'] = [f for f in data['findings'] if f['id'] != fid] + [entry]
data['findings'].sort(key=lambda f: (f['property'], f['id']))
json.dump(data, open(PATH, 'w'), indent=1, sort_keys=True); open(PATH, 'a').write('\n')
print(entry['line'])
