#!/bin/sh
# Runs the repository's pinned suite; prints the summary line. Expect "2 failed, 186 passed".
cd /repo && /venv/bin/python -m pytest -ra -q -p no:cacheprovider --timeout=900 --continue-on-collection-errors 2>&1 | tail -4
