"""Exact-arithmetic reference for unit conversion (property C07, used by the
reference interpreter for C01-C04, C14, C15).  Shares no code with /repo.

Every function returns the *set of acceptable integers*: the value rounded to
the nearest integer, both neighbours when the exact value is (numerically
indistinguishable from) a tie, after clamping to the protocol range."""
import math
from fractions import Fraction

U16 = 65535
U32 = 0xFFFFFFFF
TIE_EPS = Fraction(1, 10 ** 6)


def frac(value):
    if isinstance(value, bool):
        return Fraction(int(value))
    if isinstance(value, (int, Fraction)):
        return Fraction(value)
    if isinstance(value, float):
        if math.isnan(value) or math.isinf(value):
            raise ValueError('not finite')
        return Fraction(value)      # exact value of the double
    raise TypeError('not a number: {!r}'.format(value))


def nearest(value, lo, hi):
    """Acceptable integers for `value` clamped to [lo, hi]."""
    value = min(max(frac(value), lo), hi)
    floor = math.floor(value)
    rest = value - floor
    if abs(rest - Fraction(1, 2)) <= TIE_EPS:
        return {floor, min(floor + 1, hi)}
    return {floor + 1 if rest > Fraction(1, 2) else floor}


def hue_raw(degrees):
    turn = (frac(degrees) % 360) / 360 * U16
    return nearest(turn, 0, U16)


def pct_raw(percent):
    return nearest(frac(percent) / 100 * U16, 0, U16)


def passthrough16(value):
    return nearest(value, 0, U16)


def ms_from_seconds(seconds):
    return nearest(frac(seconds) * 1000, 0, U32)


def ms_raw(value):
    return nearest(value, 0, U32)


def rgb_to_hsv_exact(r, g, b):
    """r, g, b fractions in [0, 1] -> (h, s, v) fractions, h in [0, 1)."""
    maxc, minc = max(r, g, b), min(r, g, b)
    v = maxc
    if minc == maxc:
        return Fraction(0), Fraction(0), v
    span = maxc - minc
    s = span / maxc
    rc, gc, bc = (maxc - r) / span, (maxc - g) / span, (maxc - b) / span
    if r == maxc:
        h = bc - gc
    elif g == maxc:
        h = 2 + rc - bc
    else:
        h = 4 + gc - rc
    h = (h / 6) % 1
    return h, s, v


def hsv_to_rgb_exact(h, s, v):
    if s == 0:
        return v, v, v
    i = math.floor(h * 6)
    f = h * 6 - i
    p, q, t = v * (1 - s), v * (1 - s * f), v * (1 - s * (1 - f))
    return [(v, t, p), (q, v, p), (p, v, t), (p, q, v), (t, p, v),
            (v, p, q)][i % 6]


def rgb_raw(red, green, blue):
    """Exact raw (h, s, b) of an in-range rgb percentage triple, as Fractions
    (not yet rounded)."""
    r, g, b = (frac(x) / 100 for x in (red, green, blue))
    h, s, v = rgb_to_hsv_exact(r, g, b)
    return h * U16, s * U16, v * U16


def raw_hsb_to_rgb(raw):
    """Raw h, s, b integers -> rgb fractions in [0, 1]."""
    h, s, v = (Fraction(int(x), U16) for x in raw[:3])
    return hsv_to_rgb_exact(h % 1, s, v)


def color_acceptable(mode, regs):
    """List of four acceptable-sets for the colour a `set` must transmit.

    mode: 'logical' | 'raw' | 'rgb'; regs: dict of register values.
    For rgb the first three entries are ('rgb', exact raw fractions)."""
    kelvin = passthrough16(regs['kelvin'])
    if mode == 'raw':
        return [passthrough16(regs['hue']), passthrough16(regs['saturation']),
                passthrough16(regs['brightness']), kelvin]
    if mode == 'logical':
        return [hue_raw(regs['hue']), pct_raw(regs['saturation']),
                pct_raw(regs['brightness']), kelvin]
    if not all(0 <= regs[r] <= 100 for r in ('red', 'green', 'blue')):
        return [None, None, None, kelvin]   # no defined colour: range only
    exact = rgb_raw(regs['red'], regs['green'], regs['blue'])
    return [('rgb', exact[0]), ('rgb', exact[1]), ('rgb', exact[2]), kelvin]


def hue_equal(a, b):
    return a == b or {a, b} == {0, U16}


def color_matches(acceptable, observed, tolerance=0):
    """observed: four ints. tolerance: extra raw units allowed (0 for C07)."""
    if len(observed) != 4:
        return False
    for index, (want, got) in enumerate(zip(acceptable, observed)):
        if want is None:
            continue
        if isinstance(want, tuple):
            exact = want[1]
            slack = 1 + tolerance
            if index == 0:
                diff = abs(Fraction(got) - exact) % U16
                diff = min(diff, U16 - diff)
            else:
                diff = abs(Fraction(got) - exact)
            if diff > slack:
                return False
        else:
            ok = any(abs(got - w) <= tolerance or
                     (index == 0 and hue_equal(got, w)) for w in want)
            if not ok:
                return False
    return True


def duration_acceptable(mode, value):
    return ms_raw(value) if mode == 'raw' else ms_from_seconds(value)
