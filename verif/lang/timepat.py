"""Independent denotation of time-of-day patterns (docs/language.rst,
"Wait for Time of Day"; property C11).  Shares no code with /repo."""
import itertools

DIGITS = '0123456789'


def _hour_forms(alphabet):
    digits = [c for c in alphabet if c in DIGITS]
    forms = []
    if '*' in alphabet:
        forms.append('*')
        forms += ['*' + d for d in digits]
        forms += [d + '*' for d in digits]
    forms += digits
    forms += [a + b for a in digits for b in digits]
    return forms


def _minute_forms(alphabet):
    digits = [c for c in alphabet if c in DIGITS]
    forms = []
    if '*' in alphabet:
        forms.append('*')
        forms += ['*' + d for d in digits]
        forms += [d + '*' for d in digits]
    forms += [a + b for a in digits for b in digits]
    return forms


def well_formed_patterns(alphabet=DIGITS + '*'):
    """Every H:M where each field has one of the documented shapes."""
    return [h + ':' + m for h in _hour_forms(alphabet)
            for m in _minute_forms(alphabet)]


def split(pattern):
    """(hour field, minute field) if the string is well-formed, else None."""
    if pattern.count(':') != 1:
        return None
    hours, minutes = pattern.split(':')
    if not _field_ok(hours, allow_single_digit=True):
        return None
    if not _field_ok(minutes, allow_single_digit=False):
        return None
    return hours, minutes


def _field_ok(field, allow_single_digit):
    if field == '*':
        return True
    if len(field) == 1:
        return allow_single_digit and field in DIGITS
    if len(field) != 2:
        return False
    stars = field.count('*')
    if stars > 1:
        return False
    return all(c in DIGITS or c == '*' for c in field)


def _field_matches(field, value):
    if field == '*':
        return True
    if len(field) == 1:
        return value == int(field)
    text = '{:02d}'.format(value)
    return all(p in ('*', t) for p, t in zip(field, text))


def denotation(pattern):
    """frozenset of (hour, minute) the pattern denotes; None if malformed."""
    fields = split(pattern)
    if fields is None:
        return None
    hours, minutes = fields
    return frozenset(
        (h, m) for h in range(24) if _field_matches(hours, h)
        for m in range(60) if _field_matches(minutes, m))


def all_strings(alphabet, max_len):
    for length in range(0, max_len + 1):
        for chars in itertools.product(alphabet, repeat=length):
            yield ''.join(chars)
