"""Reference interpreter for the documented language (docs/language.rst).

A direct recursive evaluator of the AST (see printer.py for node shapes) that
emits the *expected* trace.  It shares no code with /repo.  Semantics are the
ones written down in DESIGN.md Appendix A.  Behaviour the manual leaves open
raises Undefined and the case is discarded by the caller."""
import math

from verif.lang import timepat
from verif.lang import units_exact as ux

COLOR_REGS = ('hue', 'saturation', 'brightness', 'kelvin')
RGB_REGS = ('red', 'green', 'blue')
NUM_REGS = COLOR_REGS + RGB_REGS + ('duration', 'time')
LIMIT = 1e12


class Undefined(Exception):
    """The documentation does not define this behaviour; discard the case."""


class RefBug(Exception):
    """The generator produced something the reference cannot run: a harness
    fault, never a finding."""


class _Break(Exception):
    pass


class _Return(Exception):
    def __init__(self, value):
        self.value = value


class Budget(Exception):
    pass


class Noisy(float):
    """A float whose last bits depend on the order of operations (a loop
    variable the VM reaches by repeated addition, a colour-space conversion).
    Arithmetic keeps the mark and the magnitude (`scale`) of the numbers the
    value was derived from; decisions that hinge on such a value within
    rounding noise are not asserted."""

    def __new__(cls, value, scale=None):
        self = float.__new__(cls, value)
        self.scale = max(abs(float(value)), scale or 0.0)
        return self

    def _wrap(self, value, other=0):
        if not isinstance(value, float):
            return value
        scale = self.scale
        if isinstance(other, Noisy):
            scale = max(scale, other.scale)
        elif isinstance(other, (int, float)):
            scale = max(scale, abs(other))
        return Noisy(value, scale)

    def __add__(self, o): return self._wrap(float.__add__(self, o), o)
    def __radd__(self, o): return self._wrap(float.__radd__(self, o), o)
    def __sub__(self, o): return self._wrap(float.__sub__(self, o), o)
    def __rsub__(self, o): return self._wrap(float.__rsub__(self, o), o)
    def __mul__(self, o):
        return self._scaled(float.__mul__(self, o), o)
    def __rmul__(self, o):
        return self._scaled(float.__rmul__(self, o), o)
    def __truediv__(self, o):
        value = float.__truediv__(self, o)
        return Noisy(value, self.scale / abs(o) if o else None)
    def __rtruediv__(self, o): return self._wrap(float.__rtruediv__(self, o))
    def __mod__(self, o): return self._wrap(float.__mod__(self, o), o)
    def __rmod__(self, o): return self._wrap(float.__rmod__(self, o), o)
    def __pow__(self, o): return self._wrap(float.__pow__(self, o))
    def __rpow__(self, o): return self._wrap(float.__rpow__(self, o))
    def __neg__(self): return Noisy(float.__neg__(self), self.scale)
    def __repr__(self): return float.__repr__(self)
    __str__ = __repr__

    def _scaled(self, value, factor):
        if not isinstance(value, float):
            return value
        other = factor.scale if isinstance(factor, Noisy) else abs(factor)
        return Noisy(value, self.scale * max(other, 0.0))


def _scale_of(*values):
    return max([1.0] + [v.scale if isinstance(v, Noisy) else abs(v)
                        for v in values
                        if isinstance(v, (int, float))
                        and not isinstance(v, bool)])


def _noisy(a, b=0):
    """True when a comparison of a and b could be decided by rounding noise."""
    if not (isinstance(a, Noisy) or isinstance(b, Noisy)):
        return False
    return abs(a - b) <= 1e-9 * _scale_of(a, b)


def _truth(value):
    if _noisy(value, 0):
        raise Undefined('truth value of a float within rounding noise of 0')
    return bool(value)


def _near_integer(x):
    return isinstance(x, Noisy) and abs(x - round(x)) <= 1e-9 * _scale_of(x)


def _check_num(value):
    if isinstance(value, bool) or not isinstance(value, (int, float)):
        raise RefBug('number expected, got {!r}'.format(value))
    if isinstance(value, float) and (math.isnan(value) or math.isinf(value)):
        raise Undefined('not finite')
    if abs(value) > LIMIT:
        raise Undefined('magnitude beyond 1e12')
    return value


def _carry(x, y, slope=1.0):
    """The result y of a function of x keeps x's mark; `slope` bounds how
    much the function magnifies an absolute error at x."""
    if isinstance(x, Noisy) and isinstance(y, float):
        return Noisy(y, max(abs(y), x.scale * abs(slope)))
    return y


BUILTINS = {}


def _builtin(fn):
    BUILTINS[fn.__name__.lstrip('_')] = fn
    return fn


@_builtin
def _round(x):
    rest = abs(x - math.floor(x) - 0.5)
    if rest < 1e-9 and (x not in (1.5, -1.5) or not isinstance(x, float)):
        raise Undefined('round() tie')
    return math.floor(x + 0.5) if x != -1.5 else -2


@_builtin
def _trunc(x):
    if _near_integer(x):
        raise Undefined('trunc of a float within rounding noise of an integer')
    return math.trunc(x)


@_builtin
def _floor(x):
    if _near_integer(x):
        raise Undefined('floor of a float within rounding noise of an integer')
    return math.floor(x)


@_builtin
def _ceil(x):
    if _near_integer(x):
        raise Undefined('ceil of a float within rounding noise of an integer')
    return math.ceil(x)


@_builtin
def _sqrt(x):
    if _noisy(x, 0):
        raise Undefined('sqrt of a float within rounding noise of 0')
    if x < 0:
        raise Undefined('sqrt of a negative number')
    y = math.sqrt(x)
    return _carry(x, y, 0.5 / y if y else 1.0)


@_builtin
def _sin(x):
    return _carry(x, math.sin(math.radians(x)), math.pi / 180)


@_builtin
def _cos(x):
    return _carry(x, math.cos(math.radians(x)), math.pi / 180)


@_builtin
def _tan(x):
    if abs(math.cos(math.radians(x))) < 1e-6:
        raise Undefined('tan near a pole')
    return _carry(x, math.tan(math.radians(x)),
                  math.pi / 180 / math.cos(math.radians(x)) ** 2)


@_builtin
def _asin(x):
    if _noisy(x, 1) or _noisy(x, -1):
        raise Undefined('asin at the edge of its domain')
    if not -1 <= x <= 1:
        raise Undefined('asin domain')
    return _carry(x, math.degrees(math.asin(x)),
                  180 / math.pi / math.sqrt(max(1 - x * x, 1e-12)))


@_builtin
def _acos(x):
    if _noisy(x, 1) or _noisy(x, -1):
        raise Undefined('acos at the edge of its domain')
    if not -1 <= x <= 1:
        raise Undefined('acos domain')
    return _carry(x, math.degrees(math.acos(x)),
                  180 / math.pi / math.sqrt(max(1 - x * x, 1e-12)))


@_builtin
def _atan(x):
    return _carry(x, math.degrees(math.atan(x)), 180 / math.pi)


@_builtin
def _cycle(x):
    if isinstance(x, Noisy) and _noisy(x, 360 * round(x / 360)):
        raise Undefined('cycle of a float within rounding noise of a turn')
    return x % 360 if not 0 <= x < 360 else x


BUILTIN_PARAMS = {name: 1 for name in BUILTINS}


class Frame:
    def __init__(self, params):
        params = list(params)
        self.params = dict(params)      # parameters and locals of one call
        self.param_names = {name for name, _ in params}


class Interp:
    def __init__(self, population, get_feed=None, raw_turn=65536,
                 budget=100000, tolerance=1, extra_builtins=None):
        """population: list of SimDevice specs (label, group, location, kind,
        zones / height / width).  get_feed: colours returned by successive
        `get` requests in the real run (lock-step, see DESIGN 2.4)."""
        self.pop = {spec['label']: spec for spec in population}
        self.labels = sorted(self.pop)
        self.get_feed = list(get_feed or [])
        self.raw_turn = raw_turn
        self.budget = budget
        self.tolerance = tolerance
        self.extra_builtins = extra_builtins or {}
        self.trace = []
        self.regs = {name: 0 for name in NUM_REGS}
        self.mode = 'logical'
        self.default = None
        self.globals = {}
        self.macros = {}
        self.routines = {}
        self.frames = []
        self.matrix = None
        self.used_raw_cycle = False
        self.steps = 0
        self.labels_seen = set()

    # ---- helpers -----------------------------------------------------------
    def tick(self):
        self.steps += 1
        if self.steps > self.budget:
            raise Budget()

    def note(self, label):
        self.labels_seen.add(label)

    def group_members(self, kind, name):
        key = 'group' if kind == 'group' else 'location'
        return sorted(label for label, spec in self.pop.items()
                      if spec.get(key) == name)

    def set_names(self, kind):
        key = 'group' if kind == 'group' else 'location'
        return sorted({spec.get(key) for spec in self.pop.values()})

    # ---- variables -----------------------------------------------------------
    def lookup(self, name):
        # A ['var', name] node is a variable or parameter where it was
        # compiled (macros are written as ['macro', name]); a macro of the
        # same name that is defined later in the text does not change that.
        if self.frames and name in self.frames[-1].params:
            return self.frames[-1].params[name]
        if name in self.globals:
            return self.globals[name]
        if name in self.macros:
            return self.macros[name]
        raise RefBug('read of unassigned variable {}'.format(name))

    def assign(self, name, value):
        if self.frames:
            frame = self.frames[-1]
            if name in frame.param_names:
                frame.params[name] = value
            elif name in self.globals:
                self.globals[name] = value
            else:
                frame.params[name] = value      # a local of this call
        else:
            self.globals[name] = value

    # ---- expressions ---------------------------------------------------------
    def eval(self, e):
        self.tick()
        tag = e[0]
        if tag == 'num':
            text = e[1]
            return float(text) if '.' in text else int(text)
        if tag == 'str':
            # the node holds the source text between the quotes; \" is the
            # lexer's (test-pinned) way of writing a quote inside a string
            return e[1].replace('\\"', '"')
        if tag in ('var', 'macro'):
            return self.lookup(e[1])
        if tag == 'reg':
            value = self.regs[e[1]]
            if not isinstance(value, (int, float)):
                raise Undefined('time register holds a pattern')
            return value
        if tag == 'paren':
            return self.eval(e[1])
        if tag == 'neg':
            return -_check_num(self.eval(e[1]))
        if tag == 'call':
            return self.call(e[1], e[2], need_value=True)
        if tag == 'bin':
            return self.binop(e[1], e[2], e[3])
        raise RefBug('unknown expression {!r}'.format(e))

    def binop(self, op, left, right):
        a = self.eval(left)
        b = self.eval(right)
        if op == 'and':
            return _truth(a) and _truth(b)
        if op == 'or':
            return _truth(a) or _truth(b)
        if op in ('==', '!='):
            if isinstance(a, str) != isinstance(b, str):
                raise Undefined('comparing a string with a number')
            if not isinstance(a, str) and _noisy(a, b):
                raise Undefined('float comparison within rounding noise')
            return (a == b) if op == '==' else (a != b)
        _check_num(a)
        _check_num(b)
        if op in ('<', '<=', '>', '>=') and _noisy(a, b):
            raise Undefined('float comparison within rounding noise')
        if op == '<':
            return a < b
        if op == '<=':
            return a <= b
        if op == '>':
            return a > b
        if op == '>=':
            return a >= b
        if op == '+':
            return _check_num(a + b)
        if op == '-':
            return _check_num(a - b)
        if op == '*':
            return _check_num(a * b)
        if op == '/':
            if b == 0:
                raise Undefined('division by zero')
            return _check_num(a / b)
        if op == '%':
            if b == 0 or a < 0 or b < 0:
                raise Undefined('modulo with zero or negative operand')
            result = a % b
            if _noisy(result, 0) or _noisy(result, b):
                raise Undefined('float modulo within rounding noise')
            return _check_num(result)
        if op == '^':
            if abs(b) > 8 or abs(a) > 1000:
                raise Undefined('power too large')
            if a == 0 and b < 0:
                raise Undefined('zero to a negative power')
            if a < 0 and int(b) != b:
                raise Undefined('negative base, fractional exponent')
            return _check_num(a ** b)
        raise RefBug('unknown operator ' + op)

    # ---- calls -----------------------------------------------------------------
    def call(self, name, args, need_value=False):
        self.tick()
        values = [self.eval(arg) for arg in args]    # caller's scope
        if name in self.extra_builtins:
            return self.extra_builtins[name](*values)
        if name == 'random':
            raise Undefined('random')
        if name in BUILTINS:
            for value in values:
                _check_num(value)
            return BUILTINS[name](*values)
        if name not in self.routines:
            raise RefBug('call of unknown routine ' + name)
        params, body = self.routines[name]
        if len(params) != len(values):
            raise RefBug('arity mismatch calling ' + name)
        if len(self.frames) > 40:
            raise Budget()
        self.frames.append(Frame(zip(params, values)))
        saved_matrix = self.matrix
        result = None
        returned = False
        try:
            self.run_body(body)
        except _Return as ret:
            result = ret.value
            returned = True
        except _Break:
            raise RefBug('break escaped a routine')
        finally:
            self.frames.pop()
            self.matrix = saved_matrix
        if need_value and (not returned or result is None):
            raise Undefined('routine used for its value did not return one')
        return result

    # ---- unit conversion ---------------------------------------------------------
    def current_triple(self):
        if self.mode == 'rgb':
            return [self.regs[r] for r in RGB_REGS]
        return [self.regs[r] for r in COLOR_REGS[:3]]

    def color_acceptable(self):
        regs = dict(self.regs)
        for name in COLOR_REGS + RGB_REGS:
            _check_num(regs[name])
        if self.mode == 'rgb' and not all(
                0 <= regs[r] <= 100 for r in RGB_REGS):
            raise Undefined('rgb percentage outside 0..100')
        return ux.color_acceptable(self.mode, regs)

    def duration_acceptable(self):
        return ux.duration_acceptable(
            self.mode, _check_num(self.regs['duration']))

    def switch_units(self, to_mode):
        from_mode = self.mode
        if from_mode == to_mode:
            return
        h, s, b = (float(x) for x in self.current_triple())
        for value in (h, s, b):
            _check_num(value)
        if 'rgb' in (from_mode, to_mode):
            # colour-space conversion is only defined inside the valid ranges
            if from_mode == 'logical' and not (
                    0 <= h <= 360 and 0 <= s <= 100 and 0 <= b <= 100):
                raise Undefined('logical colour outside documented range')
            if from_mode in ('raw', 'rgb') and not all(
                    0 <= x <= (65535 if from_mode == 'raw' else 100)
                    for x in (h, s, b)):
                raise Undefined('colour outside documented range')
        self.mode = to_mode
        if from_mode == 'logical' and to_mode == 'raw':
            new = [(h % 360.0) / 360.0 * 65535.0, s / 100.0 * 65535.0,
                   b / 100.0 * 65535.0]
            self._store(COLOR_REGS[:3], new)
        elif from_mode == 'raw' and to_mode == 'logical':
            new = [h / 65535.0 * 360.0, s / 65535.0 * 100.0,
                   b / 65535.0 * 100.0]
            self._store(COLOR_REGS[:3], new)
        elif to_mode == 'rgb':
            if from_mode == 'logical':
                hsv = (h / 360.0 % 1.0, s / 100.0, b / 100.0)
            else:
                hsv = (h / 65535.0 % 1.0, s / 65535.0, b / 65535.0)
            rgb = _hsv_to_rgb(*hsv)
            self._store(RGB_REGS, [Noisy(x * 100.0) for x in rgb])
        else:   # leaving rgb
            hh, ss, vv = _rgb_to_hsv(h / 100.0, s / 100.0, b / 100.0)
            if to_mode == 'logical':
                self._store(COLOR_REGS[:3], [
                    Noisy(hh * 360.0), Noisy(ss * 100.0), Noisy(vv * 100.0)])
            else:
                # The manual's example shows integers after rgb -> raw.
                self._store(COLOR_REGS[:3], [
                    round(hh * 65535.0), round(ss * 65535.0),
                    round(vv * 65535.0)])
                self.note('rgb->raw')
        if 'raw' in (from_mode, to_mode):
            factor = 1000.0 if to_mode == 'raw' else 0.001
            for reg in ('duration', 'time'):
                value = self.regs[reg]
                if not isinstance(value, (int, float)):
                    raise Undefined('units switch while time holds a pattern')
                self.regs[reg] = (value * 1000.0 if to_mode == 'raw'
                                  else value / 1000.0)

    def _store(self, names, values):
        for name, value in zip(names, values):
            self.regs[name] = value

    # ---- statements ---------------------------------------------------------------
    def run(self, program):
        try:
            self.run_body(program)
        except _Break:
            raise RefBug('break outside a loop')
        except _Return:
            raise RefBug('return outside a routine')
        return self.trace

    def run_body(self, body):
        for statement in body:
            self.exec(statement)

    def delay_event(self):
        value = self.regs['time']
        if isinstance(value, frozenset):
            self.trace.append(('wait_until', value))
        else:
            _check_num(value)
            if _noisy(value, 0):
                raise Undefined('delay within rounding noise of zero')
            if value > 0:
                self.trace.append(
                    ('delay', value / 1000.0 if self.mode == 'raw' else value))

    def name_value(self, expr):
        value = self.eval(expr)
        if not isinstance(value, str):
            raise RefBug('light name is not a string: {!r}'.format(value))
        return value

    def int_value(self, expr):
        value = self.eval(expr)
        _check_num(value)
        if int(value) != value:
            raise Undefined('non-integer index')
        return int(value)

    def exec(self, s):
        self.tick()
        tag = s[0]
        if tag == 'setreg':
            self.regs[s[1]] = _check_num(self.eval(s[2]))
        elif tag == 'timeat':
            table = frozenset()
            for pat in s[1]:
                if pat[0] == 'lit':
                    table |= timepat.denotation(pat[1])
                else:
                    table |= self.macros[pat[1]]
            self.regs['time'] = table
        elif tag == 'units':
            self.switch_units(s[1])
        elif tag == 'action':
            self.action(s[1], s[2])
        elif tag == 'stage':
            if self.matrix is None:
                raise RefBug('stage outside a matrix block')
            self.stage(s[1], s[2])
        elif tag == 'get':
            self.get(self.name_value(s[1]))
        elif tag == 'wait':
            self.delay_event()
        elif tag == 'assign':
            self.assign(s[1], self.eval(s[2]))
        elif tag == 'define':
            value = s[2]
            if value[0] == 'pat':
                self.macros[s[1]] = timepat.denotation(value[1])
            else:
                self.macros[s[1]] = self.eval(value)
        elif tag == 'routine':
            self.routines[s[1]] = (s[2], s[3])
        elif tag == 'call':
            self.call(s[1], s[2])
        elif tag == 'return':
            raise _Return(None if s[1] is None else self.eval(s[1]))
        elif tag == 'if':
            if _truth(self.eval(s[1])):
                self.note('if-true')
                self.run_body(s[2])
            elif s[3] is not None:
                self.note('if-else')
                self.run_body(s[3])
            else:
                self.note('if-skip')
        elif tag == 'repeat':
            self.repeat(s[1], s[2])
        elif tag == 'break':
            raise _Break()
        elif tag == 'print':
            if s[1] is not None:
                self.trace.append(('out', self.eval(s[1])))
        elif tag == 'println':
            if s[1] is not None:
                self.trace.append(('out', self.eval(s[1])))
            self.trace.append(('nl',))
        elif tag == 'printf':
            self.printf(s[1], s[2])
        else:
            raise RefBug('unknown statement {!r}'.format(s))

    # ---- output ---------------------------------------------------------------------
    def printf(self, fmt_expr, args):
        import string
        fmt = self.eval(fmt_expr)
        values = [self.eval(arg) for arg in args]
        fmt = fmt.replace('\\n', '\n')
        named = {}
        for _, field, _, _ in string.Formatter().parse(fmt):
            if field and not field.isdecimal():
                if field in self.regs:
                    named[field] = self.regs[field]
                else:
                    named[field] = self.lookup(field)
        try:
            text = fmt.format(*values, **named)
        except (ValueError, IndexError, KeyError, TypeError) as ex:
            raise RefBug('format failed: {}'.format(ex))
        numbers = [v for v in list(values) + list(named.values())
                   if isinstance(v, (int, float)) and not isinstance(v, bool)]
        self.trace.append(('out', text, _scale_of(*numbers)))

    # ---- commands ---------------------------------------------------------------------
    def action(self, kind, operands):
        if self.matrix is None:     # nothing is sent from inside a block
            self.delay_event()
        for operand in operands:
            self.operand(kind, operand)

    def color_cmd(self, label):
        self.trace.append(('cmd', label, 'set_color', self.color_acceptable(),
                           self.duration_acceptable()))

    def power_cmd(self, label, kind):
        self.trace.append(('cmd', label, 'set_power',
                           65535 if kind == 'on' else 0,
                           self.duration_acceptable()))

    def operand(self, kind, operand):
        tag = operand[0]
        if tag == 'default':
            self.default = self.color_acceptable()
            return
        if tag == 'all':
            if kind == 'set':
                self.color_cmd('<all>')
            else:
                self.power_cmd('<all>', kind)
            return
        name = self.name_value(operand[1])
        if tag == 'light':
            if name in self.pop:
                if kind == 'set':
                    self.color_cmd(name)
                else:
                    self.power_cmd(name, kind)
            else:
                self.note('unknown-light')
        elif tag in ('group', 'location'):
            members = self.group_members(tag, name)
            if not members:
                self.note('unknown-' + tag)
            for label in members:
                if kind == 'set':
                    self.color_cmd(label)
                else:
                    self.power_cmd(label, kind)
        elif tag == 'zone':
            first = self.int_value(operand[2])
            last = first if operand[3] is None else self.int_value(operand[3])
            spec = self.pop.get(name)
            if spec is None:
                self.note('unknown-light')
            elif spec.get('kind') != 'mz':
                self.note('zone-on-non-multizone')
            else:
                if not (0 <= first <= last < spec['zones']):
                    raise Undefined('zone range outside the device')
                self.trace.append((
                    'cmd', name, 'set_zone_color', first, last + 1,
                    self.color_acceptable(), self.duration_acceptable()))
        elif tag in ('matrix_inline', 'matrix_block'):
            self.matrix_cmd(name, operand)
        else:
            raise RefBug(operand)

    def matrix_cmd(self, name, operand):
        spec = self.pop.get(name)
        is_matrix = spec is not None and spec.get('kind') == 'matrix'
        height = spec['height'] if is_matrix else 255
        width = spec['width'] if is_matrix else 255
        outer = self.matrix
        self.matrix = {'h': height, 'w': width, 'cells': {}}
        try:
            if operand[0] == 'matrix_inline':
                self.stage(operand[2], operand[3])
            else:
                self.run_body(operand[2])
            cells = self.matrix['cells']
        finally:
            self.matrix = outer
        if not is_matrix:
            self.note('matrix-on-non-matrix' if spec is not None
                      else 'unknown-light')
            return
        fill = self.default
        out = []
        for row in range(height):
            for column in range(width):
                if (row, column) in cells:
                    out.append(cells[(row, column)])
                elif fill is not None:
                    out.append(fill)
                else:
                    out.append([{0}, {0}, {0}, {0}])
        self.trace.append(('cmd', name, 'set_tile', out,
                           self.duration_acceptable()))

    def stage(self, rows, cols):
        m = self.matrix

        def span(values, size):
            if values is None:
                return range(0, size)
            first = self.int_value(values[0])
            last = first if values[1] is None else self.int_value(values[1])
            if not (0 <= first <= last < size):
                raise Undefined('row/column range outside the device')
            return range(first, last + 1)
        row_span = span(rows, m['h'])
        col_span = span(cols, m['w'])
        color = self.color_acceptable()
        for row in row_span:
            for column in col_span:
                m['cells'][(row, column)] = color

    def get(self, name):
        spec = self.pop.get(name)
        if spec is None:
            self.note('get-unknown')
            return
        if spec.get('kind', 'plain') != 'plain':
            raise Undefined('get on a multizone or matrix light')
        self.trace.append(('get', name))
        if not self.get_feed:
            raise Undefined('no observed get value to continue with')
        raw = self.get_feed.pop(0)
        h, s, b, k = (float(x) for x in raw)
        if self.mode == 'raw':
            self._store(COLOR_REGS, list(raw))
        elif self.mode == 'logical':
            self._store(COLOR_REGS, [h / 65535.0 * 360.0, s / 65535.0 * 100.0,
                                     b / 65535.0 * 100.0, raw[3]])
        else:
            rgb = _hsv_to_rgb(h / 65535.0 % 1.0, s / 65535.0, b / 65535.0)
            self._store(RGB_REGS, [Noisy(x * 100.0) for x in rgb])
            self.regs['kelvin'] = raw[3]

    # ---- loops ---------------------------------------------------------------------------
    def count_value(self, expr):
        value = self.eval(expr)
        _check_num(value)
        if int(value) != value or value < 0:
            raise Undefined('loop count is not a non-negative integer')
        return int(value)

    def body_once(self, body):
        try:
            self.run_body(body)
        except _Break:
            self.note('break-taken')
            return False
        return True

    def repeat(self, spec, body):
        tag = spec[0]
        depth_label = 'loop:' + tag
        self.note(depth_label)
        if tag == 'forever':
            while True:
                self.tick()
                if not self.body_once(body):
                    return
        if tag == 'while':
            while _truth(self.eval(spec[1])):
                self.tick()
                if not self.body_once(body):
                    return
            return
        if tag == 'count':
            count = self.count_value(spec[1])
            self.note('count:{}'.format(min(count, 2)))
            for _ in range(count):
                if not self.body_once(body):
                    return
            return
        if tag == 'range':
            first = self.int_value(spec[2])
            last = self.int_value(spec[3])
            step = 1 if last >= first else -1
            for value in range(first, last + step, step):
                self.assign(spec[1], value)
                if not self.body_once(body):
                    return
            return
        if tag == 'interp':
            count = self.count_value(spec[1])
            self.note('interp-count:{}'.format(min(count, 2)))
            first = _check_num(self.eval(spec[3]))
            last = _check_num(self.eval(spec[4]))
            if count == 0:
                self.assign(spec[2], first)     # exists, value unspecified
            for value in _interpolate(first, last, count):
                self.assign(spec[2], value)
                if not self.body_once(body):
                    return
            return
        if tag == 'cycle':
            count = self.count_value(spec[1])
            self.note('cycle-count:{}'.format(min(count, 2)))
            start = 0 if spec[3] is None else _check_num(self.eval(spec[3]))
            if count == 0:
                self.assign(spec[2], start)     # exists, value unspecified
            for value in self.cycle_values(start, count):
                self.assign(spec[2], value)
                if not self.body_once(body):
                    return
            return
        # ---- light iteration -------------------------------------------------
        if tag == 'all':
            names = list(self.labels)
            light_var, with_spec = spec[1], spec[2]
        elif tag in ('groups', 'locations'):
            names = self.set_names('group' if tag == 'groups' else 'location')
            light_var, with_spec = spec[1], spec[2]
        elif tag == 'list':
            names = []
            for source in spec[1]:
                value = self.name_value(source[1])
                if source[0] == 'light':
                    names.append(value)
                else:
                    names.extend(self.group_members(source[0], value))
            light_var, with_spec = spec[2], spec[3]
            if len(spec[1]) > 1:
                self.note('list-multi-source')
        else:
            raise RefBug(spec)
        count = len(names)
        self.note('iter-count:{}'.format(min(count, 2)))
        values = None
        if with_spec is not None:
            if with_spec[0] == 'range':
                first = _check_num(self.eval(with_spec[2]))
                last = _check_num(self.eval(with_spec[3]))
                values = _interpolate(first, last, count)
            else:
                start = 0 if with_spec[2] is None else _check_num(
                    self.eval(with_spec[2]))
                values = self.cycle_values(start, count)
        if with_spec is not None and count == 0:
            self.assign(with_spec[1], first if with_spec[0] == 'range'
                        else start)             # exists, value unspecified
        for index, name in enumerate(names):
            self.assign(light_var, name)
            if values is not None:
                self.assign(with_spec[1], values[index])
            if not self.body_once(body):
                return

    def cycle_values(self, start, count):
        if self.mode == 'raw':
            self.used_raw_cycle = True
            turn = self.raw_turn
        else:
            turn = 360
        if count == 0:
            return []
        step = turn / count
        return _steps(start, step, count)


def _steps(first, step, count):
    """first + k*step; marked Noisy unless every partial sum is exact (a
    step that is a small dyadic rational), because the VM adds repeatedly."""
    exact = (float(step) * 1024).is_integer() and (
        float(first) * 1024).is_integer() and abs(step) < 1e6
    values = [first + k * step for k in range(count)]
    if exact and not isinstance(first, Noisy) and not isinstance(step, Noisy):
        return values
    scale = max(abs(first), abs(first + step * count), abs(step))
    return [values[0]] + [Noisy(v, scale) for v in values[1:]]


def _interpolate(first, last, count):
    if count == 0:
        return []
    if count == 1:
        return [first]
    step = (last - first) / (count - 1)
    return _steps(first, step, count)


def _hsv_to_rgb(h, s, v):
    if s == 0.0:
        return v, v, v
    i = int(h * 6.0)
    f = (h * 6.0) - i
    p, q, t = v * (1.0 - s), v * (1.0 - s * f), v * (1.0 - s * (1.0 - f))
    return [(v, t, p), (q, v, p), (p, v, t), (p, q, v), (t, p, v),
            (v, p, q)][i % 6]


def _rgb_to_hsv(r, g, b):
    maxc, minc = max(r, g, b), min(r, g, b)
    v = maxc
    if minc == maxc:
        return 0.0, 0.0, v
    span = maxc - minc
    s = span / maxc
    rc, gc, bc = (maxc - r) / span, (maxc - g) / span, (maxc - b) / span
    if r == maxc:
        h = bc - gc
    elif g == maxc:
        h = 2.0 + rc - bc
    else:
        h = 4.0 + gc - rc
    return (h / 6.0) % 1.0, s, v


# ---- comparing an observed trace with the expected one ---------------------------
def _text_equal(want, got, scale=1.0):
    """printf output: equal, or equal token by token with numbers compared
    numerically (a loop variable reached by repeated addition may differ from
    first + k*step in the last bits)."""
    if want == got:
        return True
    a, b = want.split(' '), got.split(' ')
    if len(a) != len(b):
        return False
    for x, y in zip(a, b):
        if x == y:
            continue
        try:
            fx, fy = float(x), float(y)
        except ValueError:
            return False
        if abs(fx - fy) > 1e-9 * max(1.0, abs(fx), abs(fy), scale):
            return False
    return True


def _num_equal(want, got):
    if isinstance(want, str) and isinstance(got, str):
        return _text_equal(want, got)
    if isinstance(want, bool) or isinstance(got, bool):
        return want is got or (want == got and isinstance(want, bool)
                               and isinstance(got, bool))
    if isinstance(want, (int, float)) and isinstance(got, (int, float)):
        return abs(want - got) <= 1e-9 * max(_scale_of(want), abs(got))
    return want == got and type(want) is type(got)


def event_matches(want, got, tolerance=1):
    if want[0] != got[0]:
        return False
    kind = want[0]
    if kind == 'delay':
        return _num_equal(want[1], got[1])
    if kind == 'wait_until':
        return want[1] == got[1]
    if kind == 'out':
        if len(want) > 2 and isinstance(want[1], str) and isinstance(
                got[1], str):
            return _text_equal(want[1], got[1], want[2])
        return _num_equal(want[1], got[1])
    if kind == 'nl':
        return True
    if kind == 'get':
        return want[1] == got[1]
    if kind == 'cmd':
        if want[1] != got[1] or want[2] != got[2]:
            return False
        op = want[2]
        if op == 'set_color':
            return (ux.color_matches(want[3], got[3], tolerance)
                    and got[4] in want[4])
        if op == 'set_power':
            return want[3] == got[3] and got[4] in want[4]
        if op == 'set_zone_color':
            return (want[3] == got[3] and want[4] == got[4] and
                    ux.color_matches(want[5], got[5], tolerance) and
                    got[6] in want[6])
        if op == 'set_tile':
            cells = got[3]
            if cells is None or len(cells) != len(want[3]):
                return False
            return all(ux.color_matches(w, g, tolerance)
                       for w, g in zip(want[3], cells)) and got[4] in want[4]
    return False


def describe_event(event):
    """Readable, JSON-able rendering of an expected or observed event."""
    def show(value):
        if isinstance(value, (set, frozenset)):
            items = sorted(value)
            return items if len(items) <= 6 else '{} items'.format(len(items))
        if isinstance(value, tuple) and value and value[0] == 'rgb':
            return '~{:.1f}'.format(float(value[1]))
        if isinstance(value, (list, tuple)):
            if len(value) > 8:
                return '[{} cells]'.format(len(value))
            return [show(v) for v in value]
        return value
    return [show(part) for part in event]


def compare(expected, observed, tolerance=1):
    """None if the traces agree, else (index, text)."""
    for index, want in enumerate(expected):
        if index >= len(observed):
            return index, 'run ended early: expected {} next'.format(
                describe_event(want))
        if not event_matches(want, observed[index], tolerance):
            return index, 'event {}: expected {} observed {}'.format(
                index, describe_event(want), describe_event(observed[index]))
    if len(observed) > len(expected):
        return len(expected), 'extra event {}'.format(
            describe_event(observed[len(expected)]))
    return None
