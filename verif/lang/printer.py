"""AST (JSON-native nested lists) -> token list -> text.

Expression nodes:  ['num', text] ['str', s] ['var', n] ['macro', n] ['reg', n]
                   ['call', name, [args]] ['neg', e] ['bin', op, l, r]
                   ['paren', e]
Statements: see DESIGN.md section 2.4 / the reference interpreter (ref.py).

The printer guarantees that the text parses back to the same tree under the
*documented* grammar (DESIGN.md Appendix B).  A token is (text, kind) with kind
in kw name num str mark pat; ('', 'stmt') marks the start of a statement."""

PREC = {'or': 2, 'and': 3, '==': 4, '!=': 4, '<': 4, '<=': 4, '>': 4,
        '>=': 4, '+': 5, '-': 5, '*': 6, '/': 6, '%': 6, '^': 7}
RIGHT = {'^'}
ABBREV = {'hue': 'H', 'saturation': 'S', 'brightness': 'B', 'kelvin': 'K'}

STMT = ('', 'stmt')


class Layout:
    """Printing options; the defaults give the plain canonical text."""

    def __init__(self, abbreviate=False, brace_simple=False,
                 bracket_calls=False, redundant_parens=False,
                 chooser=None):
        self.abbreviate = abbreviate
        self.brace_simple = brace_simple
        self.bracket_calls = bracket_calls
        self.redundant_parens = redundant_parens
        self.chooser = chooser      # callable() -> bool, for per-site choices

    def pick(self, flag):
        if not flag:
            return False
        return True if self.chooser is None else bool(self.chooser())


PLAIN = Layout()


def kw(text):
    return (text, 'kw')


def mark(text):
    return (text, 'mark')


def is_simple(expr):
    tag = expr[0]
    if tag in ('num', 'str', 'var', 'macro', 'reg', 'call'):
        return True
    if tag == 'neg':
        return expr[1][0] in ('num', 'macro')
    return False


class Printer:
    def __init__(self, layout=PLAIN):
        self.layout = layout
        self.out = []
        self.open_end = False   # last construct has an omitted optional value

    # ---- expressions ------------------------------------------------------
    def rvalue(self, expr, guarded=False):
        """A value position outside curly braces.  guarded: a position the
        grammar only recognises as a value by its first token (print, return,
        loop count, cycle start, zone/row/column) - a bare minus is not one."""
        self.open_end = False
        if guarded and expr[0] == 'neg' or guarded == 'index' and (
                expr[0] == 'reg'):
            # a bare minus is not recognised in these positions, and registers
            # are documented as not usable for zone / row / column
            self.out.append(mark('{'))
            self.expr(expr, 0)
            self.out.append(mark('}'))
        elif is_simple(expr) and not (
                expr[0] in ('num', 'var', 'reg', 'neg') and
                (expr[0] != 'neg' or expr[1][0] == 'num') and
                self.layout.pick(self.layout.brace_simple)):
            self.simple(expr)
        else:
            self.out.append(mark('{'))
            self.expr(expr, 0)
            self.out.append(mark('}'))

    def simple(self, expr):
        tag = expr[0]
        if tag == 'num':
            self.out.append((expr[1], 'num'))
        elif tag == 'str':
            self.out.append(('"' + expr[1] + '"', 'str'))
        elif tag in ('var', 'macro'):
            self.out.append((expr[1], 'name'))
        elif tag == 'reg':
            self.reg(expr[1])
        elif tag == 'call':
            self.call(expr[1], expr[2], bracket=True)
        elif tag == 'neg':
            self.out.append(mark('-'))
            self.simple(expr[1])
        else:
            raise ValueError('not simple: {!r}'.format(expr))

    def reg(self, name):
        if name in ABBREV and self.layout.pick(self.layout.abbreviate):
            self.out.append((ABBREV[name], 'kw'))
        else:
            self.out.append((name, 'kw'))

    def call(self, name, args, bracket):
        if bracket:
            self.out.append(mark('['))
        self.out.append((name, 'name'))
        for arg in args:
            self.rvalue(arg)
        if bracket:
            self.out.append(mark(']'))

    def atom(self, expr):
        tag = expr[0]
        if tag in ('num', 'str', 'var', 'macro', 'reg', 'call'):
            self.simple(expr)
        elif tag == 'neg':
            self.out.append(mark('-'))
            self.atom(expr[1])
        elif tag == 'paren':
            self.out.append(mark('('))
            self.expr(expr[1], 0)
            self.out.append(mark(')'))
        else:
            self.out.append(mark('('))
            self.expr(expr, 0)
            self.out.append(mark(')'))

    def expr(self, expr, min_prec, right_side=False):
        """Print with minimal parentheses for the documented precedence."""
        if expr[0] != 'bin':
            if self.layout.pick(self.layout.redundant_parens):
                self.out.append(mark('('))
                self.atom(expr)
                self.out.append(mark(')'))
            else:
                self.atom(expr)
            return
        op = expr[1]
        prec = PREC[op]
        need = prec < min_prec or self.layout.pick(self.layout.redundant_parens)
        if need:
            self.out.append(mark('('))
        left, right = expr[2], expr[3]
        if op in RIGHT:
            # a^b^c groups right to left; a unary minus never sits directly
            # on the left of ^ (the manual does not define -a^b).
            if left[0] == 'neg':
                self.out.append(mark('('))
                self.atom(left)
                self.out.append(mark(')'))
            else:
                self.expr(left, prec + 1)
            self.out.append((op, 'mark'))
            self.expr(right, prec)
        else:
            self.expr(left, prec)
            self.out.append((op, 'mark' if op not in ('and', 'or') else 'kw'))
            self.expr(right, prec + 1)
        if need:
            self.out.append(mark(')'))

    # ---- statements -------------------------------------------------------
    def program(self, statements):
        for statement in statements:
            self.statement(statement)
        return self.out

    def block(self, body):
        self.out.append(kw('begin'))
        for statement in body:
            self.statement(statement)
        self.out.append(kw('end'))

    def name_operand(self, expr):
        # light / group / location names: string literal, variable or macro
        self.simple(expr)

    def rng(self, keyword, values):
        self.out.append(kw(keyword))
        self.rvalue(values[0], guarded='index')
        if values[1] is not None:
            self.rvalue(values[1], guarded='index')
        else:
            self.open_end = True

    def rect(self, rows, cols, order):
        parts = []
        if rows is not None:
            parts.append(('row', rows))
        if cols is not None:
            parts.append(('column', cols))
        if order == 'cr':
            parts.reverse()
        for keyword, values in parts:
            self.rng(keyword, values)

    def operand(self, operand):
        tag = operand[0]
        if tag == 'all':
            self.out.append(kw('all'))
        elif tag == 'default':
            self.out.append(kw('default'))
        elif tag == 'light':
            self.name_operand(operand[1])
        elif tag in ('group', 'location'):
            self.out.append(kw(tag))
            self.name_operand(operand[1])
        elif tag == 'zone':
            self.name_operand(operand[1])
            self.rng('zone', [operand[2], operand[3]])
        elif tag == 'matrix_inline':
            self.name_operand(operand[1])
            self.rect(operand[2], operand[3], operand[4])
        elif tag == 'matrix_block':
            self.name_operand(operand[1])
            self.block(operand[2])
        else:
            raise ValueError(operand)

    def with_spec(self, spec):
        if spec is None:
            return
        self.out.append(kw('with'))
        self.out.append((spec[1], 'name'))
        if spec[0] == 'range':
            self.out.append(kw('from'))
            self.rvalue(spec[2])
            self.out.append(kw('to'))
            self.rvalue(spec[3])
        else:
            self.out.append(kw('cycle'))
            if spec[2] is not None:
                self.rvalue(spec[2], guarded=True)

    def statement(self, s):
        out = self.out
        out.append(STMT)
        tag = s[0]
        if tag == 'setreg':
            self.reg(s[1])
            self.rvalue(s[2])
        elif tag == 'timeat':
            out.append(kw('time'))
            out.append(kw('at'))
            for index, pat in enumerate(s[1]):
                if index:
                    out.append(kw('or'))
                if pat[0] == 'lit':
                    out.append((pat[1], 'pat'))
                else:
                    out.append((pat[1], 'name'))
        elif tag == 'units':
            out.append(kw('units'))
            out.append(kw(s[1]))
        elif tag == 'action':
            out.append(kw(s[1]))
            for index, operand in enumerate(s[2]):
                if index:
                    out.append(kw('and'))
                self.operand(operand)
        elif tag == 'stage':
            out.append(kw('stage'))
            self.rect(s[1], s[2], s[3])
        elif tag == 'get':
            out.append(kw('get'))
            self.name_operand(s[1])
        elif tag == 'wait':
            out.append(kw('wait'))
        elif tag == 'assign':
            out.append(kw('assign'))
            out.append((s[1], 'name'))
            self.rvalue(s[2])
        elif tag == 'define':
            out.append(kw('define'))
            out.append((s[1], 'name'))
            value = s[2]
            if value[0] == 'pat':
                out.append((value[1], 'pat'))
            else:
                self.simple(value)
        elif tag == 'routine':
            out.append(kw('define'))
            out.append((s[1], 'name'))
            if s[2]:
                out.append(kw('with'))
                for param in s[2]:
                    out.append((param, 'name'))
            self.block(s[3])
        elif tag == 'call':
            bracket = (not self.open_end) and self.layout.pick(
                self.layout.bracket_calls)
            self.call(s[1], s[2], bracket=bracket)
        elif tag == 'return':
            out.append(kw('return'))
            if s[1] is not None:
                self.rvalue(s[1], guarded=True)
            else:
                self.open_end = True
        elif tag == 'if':
            out.append(kw('if'))
            self.rvalue(s[1])
            self.block(s[2])
            if s[3] is not None:
                out.append(kw('else'))
                if len(s[3]) == 1 and s[3][0][0] == 'if' and s[3][0][-1] == 'chain':
                    self.statement(s[3][0])
                    # the nested statement pushed its own STMT marker; fine
                else:
                    self.block(s[3])
        elif tag == 'repeat':
            out.append(kw('repeat'))
            self.loop_head(s[1])
            self.block(s[2])
        elif tag == 'break':
            out.append(kw('break'))
        elif tag in ('print', 'println'):
            out.append(kw(tag))
            if s[1] is not None:
                self.rvalue(s[1], guarded=True)
            else:
                self.open_end = True
        elif tag == 'printf':
            out.append(kw('printf'))
            self.simple(s[1])
            for arg in s[2]:
                self.rvalue(arg)
        else:
            raise ValueError('unknown statement {!r}'.format(s))

    def loop_head(self, spec):
        out = self.out
        tag = spec[0]
        if tag == 'forever':
            return
        if tag == 'count':
            self.rvalue(spec[1], guarded=True)
        elif tag == 'while':
            out.append(kw('while'))
            self.rvalue(spec[1])
        elif tag == 'range':
            self.with_spec(['range', spec[1], spec[2], spec[3]])
        elif tag == 'interp':
            self.rvalue(spec[1], guarded=True)
            self.with_spec(['range', spec[2], spec[3], spec[4]])
        elif tag == 'cycle':
            self.rvalue(spec[1], guarded=True)
            self.with_spec(['cycle', spec[2], spec[3]])
        elif tag == 'all':
            out.append(kw('all'))
            out.append(kw('as'))
            out.append((spec[1], 'name'))
            self.with_spec(spec[2])
        elif tag in ('groups', 'locations'):
            out.append(kw('group' if tag == 'groups' else 'location'))
            out.append(kw('as'))
            out.append((spec[1], 'name'))
            self.with_spec(spec[2])
        elif tag == 'list':
            out.append(kw('in'))
            for index, source in enumerate(spec[1]):
                if index:
                    out.append(kw('and'))
                if source[0] in ('group', 'location'):
                    out.append(kw(source[0]))
                if source[1][0] == 'var' and self.layout.pick(
                        self.layout.brace_simple):
                    # an element of a light list is a value position
                    out.append(mark('{'))
                    self.name_operand(source[1])
                    out.append(mark('}'))
                else:
                    self.name_operand(source[1])
            out.append(kw('as'))
            out.append((spec[2], 'name'))
            self.with_spec(spec[3])
        else:
            raise ValueError(spec)


def tokens(program, layout=PLAIN):
    return Printer(layout).program(program)


def join_plain(token_list):
    """Canonical text: one statement per line, single spaces."""
    lines, current = [], []
    depth = 0
    for text, kind in token_list:
        if kind == 'stmt':
            if current:
                lines.append(current)
            current = []
            continue
        current.append(text)
    if current:
        lines.append(current)
    return '\n'.join(' '.join(line) for line in lines)


def to_text(program, layout=PLAIN):
    return join_plain(tokens(program, layout))


def token_texts(token_list):
    return [text for text, kind in token_list if kind != 'stmt']
