"""Hypothesis strategies that build well-formed, well-defined programs by
construction (DESIGN.md 2.4).  A static environment is threaded through the
generation: names in scope, definitely-assigned variables, routines already
defined, loop / routine / matrix context, the population.

A *profile* is a dict of weights and limits; each check passes its own."""
import copy

from hypothesis import strategies as st


_INTS = {}
_INDEX = {}
_BOOL = st.booleans()


def rint(draw, lo, hi):
    """rint(draw, lo, hi) with the strategy object cached."""
    key = (lo, hi)
    strategy = _INTS.get(key)
    if strategy is None:
        strategy = _INTS[key] = st.integers(lo, hi)
    return draw(strategy)


def pick(draw, seq):
    """pick(draw, seq) without building a strategy per call."""
    seq = list(seq)
    strategy = _INDEX.get(len(seq))
    if strategy is None:
        strategy = _INDEX[len(seq)] = st.sampled_from(range(len(seq)))
    return seq[draw(strategy)]


def flip(draw):
    return draw(_BOOL)


NUM_NAMES = ['a', 'b', 'c', 'x', 'y', 'z']
COUNTERS = ['i', 'j', 'k', 'n']
LIGHT_VARS = ['lt1', 'lt2', 'lt3']
COLOR_REGS = ['hue', 'saturation', 'brightness', 'kelvin']
RGB_REGS = ['red', 'green', 'blue']
BUILTINS1 = ['round', 'trunc', 'floor', 'ceil', 'sqrt', 'sin', 'cos', 'atan',
             'cycle']

DEFAULT_PROFILE = {
    'max_top': 14,          # statements at top level
    'max_block': 4,         # statements per nested block
    'max_depth': 3,         # nesting depth of control constructs
    'expr_depth': 3,
    'w_setreg': 6, 'w_action': 8, 'w_get': 1, 'w_wait': 1, 'w_time': 2,
    'w_timeat': 1, 'w_assign': 5, 'w_if': 5, 'w_repeat': 5, 'w_call': 7,
    'w_print': 4, 'w_units': 1, 'w_break': 2, 'w_return': 2, 'w_define': 1,
    'w_routine': 3, 'w_matrix': 2, 'w_zone': 2,
    'routines': True, 'light_loops': True, 'units': True, 'matrix': True,
    'dump_after_call': False, 'unknown_names': True, 'recursion': True,
    'allow_return_in_loop': True, 'allow_param_assign_in_loop': True,
    'allow_break_in_light_loop': True, 'allow_zero_cycle': True,
    'allow_raw_cycle': True, 'allow_matrix_in_routine': True,
    'max_pop': 6, 'reset_after_get': False, 'routine_in_blocks': False,
    'matrix_stages': 4, 'default_often': False,
}


def profile(**overrides):
    p = dict(DEFAULT_PROFILE)
    p.update(overrides)
    return p


# ---- populations --------------------------------------------------------------
LABELS = ['A', 'B', 'C', 'D', 'E', 'F', 'Top Left', 'z9']
# Group and location names overlap on purpose (a group and a location may
# share a name and have different members), and 'G1' is also used as the name
# of a light that does not exist.
# Names differ in case as well: groups and locations are visited in plain
# string order ('X' before 'g2').
GROUPS = ['G1', 'g2', 'X']
LOCATIONS = ['L1', 'X', 'G1', 'den']


@st.composite
def populations(draw, max_size=6, need=()):
    max_size = min(max_size, len(LABELS))
    count = pick(draw, [n for n in (0, 1, 2, 3, 3, 4, 4, 5, 5, 6, 7, 8)
                        if n <= max_size])
    labels = draw(st.permutations(LABELS))[:count]
    specs = []
    kinds = list(need)
    for label in labels:
        if kinds:
            kind = kinds.pop()
        else:
            kind = pick(draw, 
                ['plain', 'plain', 'plain', 'mz', 'matrix'])
        spec = {'label': label,
                'group': pick(draw, GROUPS),
                'location': pick(draw, LOCATIONS),
                'kind': kind,
                'color': [rint(draw, 0, 65535) for _ in range(3)] + [
                    rint(draw, 1500, 9000)],
                'power': pick(draw, [0, 65535])}
        if kind == 'mz':
            spec['zones'] = pick(draw, [1, 2, 5, 8, 16, 82])
        elif kind == 'matrix':
            height, width = pick(draw, 
                [(6, 5), (11, 5), (1, 1), (2, 3), (8, 8), (16, 4), (3, 7)])
            spec['height'], spec['width'] = height, width
        specs.append(spec)
    return specs


# ---- environment ----------------------------------------------------------------
class Env:
    def __init__(self, pop, prof):
        self.pop = pop
        self.prof = prof
        self.labels = [s['label'] for s in pop]
        self.defined = set()        # definitely assigned numeric names here
        self.light_defined = set()  # definitely assigned light-name variables
        self.known = {}             # name -> (lo, hi) statically known ints
        self.macros_num = {}        # name -> literal text
        self.macros_str = {}        # name -> string
        self.macros_pat = []
        self.routines = {}          # name -> info dict
        self.scope = None           # None at top level, else {'params': [...]}
        self.loop_depth = 0
        self.loop_kinds = []        # kinds of the enclosing loops, innermost last
        self.active = set()         # loop variables / counters not to assign
        self.matrix = None          # (height, width) inside a matrix block
        self.depth = 0
        self.serial = [0]
        self.time_pattern = [False]
        self.assigned = set()       # names assigned anywhere in this body
        self.unspecified = set()    # names left with an unspecified value
        self.called = set()         # routines called anywhere in this body
        self.reads = set()          # names read anywhere in this body
        self.globals_ok = None      # in a routine: globals defined at its definition

    def child(self):
        other = copy.copy(self)
        other.defined = set(self.defined)
        other.light_defined = set(self.light_defined)
        other.known = dict(self.known)
        other.active = set(self.active)
        other.loop_kinds = list(self.loop_kinds)
        other.depth = self.depth + 1
        other.unspecified = set()
        return other

    def spoil(self, name):
        """The value of `name` is unspecified from here on (a loop variable
        after its loop)."""
        self.defined.discard(name)
        self.light_defined.discard(name)
        self.known.pop(name, None)
        self.unspecified.add(name)

    def fresh(self, prefix):
        self.serial[0] += 1
        return '{}{}'.format(prefix, self.serial[0])

    def in_routine(self):
        return self.scope is not None

    def note_assigned(self, name):
        self.assigned.add(name)
        self.known.pop(name, None)

    def merge_nested(self, nested):
        """After a nested block: whatever it may have assigned is no longer
        statically known here."""
        self.assigned |= nested.assigned
        self.called |= nested.called
        self.reads |= nested.reads
        for name in nested.assigned:
            self.known.pop(name, None)
        for name in nested.unspecified:
            self.spoil(name)
        self.time_pattern = nested.time_pattern


def global_reads(env, routine_name, seen=None):
    """Globals a routine (or anything it calls) may read."""
    seen = seen or set()
    if routine_name in seen or routine_name not in env.routines:
        return set()
    seen.add(routine_name)
    info = env.routines[routine_name]
    result = set(info.get('reads', ()))
    for callee in info['calls']:
        result |= global_reads(env, callee, seen)
    return result


def reads_ok(env, routine_name):
    """Every global the routine reads still has a specified value here."""
    available = env.defined | env.light_defined
    if env.globals_ok is not None:
        hidden = set(env.scope['params'])
        available = {n for n in env.globals_ok} | (available - hidden)
        # a name hidden by a parameter is still fine if the global is defined
        available |= env.globals_ok
    return global_reads(env, routine_name) <= available


def may_assign(env, routine_name, seen=None):
    seen = seen or set()
    if routine_name in seen or routine_name not in env.routines:
        return set()
    seen.add(routine_name)
    info = env.routines[routine_name]
    result = set(info['assigns'])
    for callee in info['calls']:
        result |= may_assign(env, callee, seen)
    return result


# ---- literals ----------------------------------------------------------------------
def int_lit(draw, lo=0, hi=20):
    return ['num', str(rint(draw, lo, hi))]


def float_lit(draw):
    whole = rint(draw, 0, 120)
    frac = pick(draw, ['0', '5', '25', '75', '125', '1', '3', '7'])
    return ['num', '{}.{}'.format(whole, frac)]


def maybe_neg(draw, lit):
    if rint(draw, 0, 9) == 0:
        return ['neg', lit]
    return lit


# ---- expressions ---------------------------------------------------------------------
def readable_nums(env):
    return sorted(env.defined)


def readable_regs(env):
    regs = ['hue', 'saturation', 'brightness', 'kelvin', 'duration', 'red',
            'green', 'blue']
    if not env.time_pattern[0]:
        regs.append('time')
    return regs


def functions(env):
    if env.matrix is not None:
        # A routine called from inside a `set L begin ... end` block may
        # itself issue commands; the manual says nothing about that (DESIGN 4).
        return []
    return sorted(name for name, info in env.routines.items()
                  if info['function'] and 'assigns' in info
                  and name != (env.scope or {}).get('name')
                  and reads_ok(env, name)
                  and not (env.active & may_assign(env, name)))


def num_leaf(draw, env):
    choices = ['int', 'int', 'float']
    if readable_nums(env):
        choices += ['var', 'var', 'var']
    if env.macros_num:
        choices.append('macro')
    choices.append('reg')
    kind = pick(draw, choices)
    if kind == 'int':
        return maybe_neg(draw, int_lit(draw))
    if kind == 'float':
        return maybe_neg(draw, float_lit(draw))
    if kind == 'var':
        name = pick(draw, readable_nums(env))
        env.reads.add(name)
        return ['var', name]
    if kind == 'macro':
        return ['macro', pick(draw, sorted(env.macros_num))]
    return ['reg', pick(draw, readable_regs(env))]


def num_expr(draw, env, depth=None):
    if depth is None:
        depth = env.prof['expr_depth']
    if depth <= 0 or rint(draw, 0, 3) == 0:
        return num_leaf(draw, env)
    kind = pick(draw, 
        ['bin', 'bin', 'bin', 'bin', 'neg', 'paren', 'call', 'builtin'])
    if kind == 'bin':
        op = pick(draw, 
            ['+', '+', '-', '-', '*', '*', '/', '%', '^'])
        left = num_expr(draw, env, depth - 1)
        if op == '/':
            right = pick(draw, ['lit', 'lit', 'expr'])
            right = (['num', str(rint(draw, 1, 9))] if right == 'lit'
                     else num_expr(draw, env, depth - 1))
        elif op == '%':
            left = ['num', str(rint(draw, 0, 50))] if flip(draw) else ['paren', ['bin', '*', left, left]]
            right = ['num', str(rint(draw, 1, 9))]
        elif op == '^':
            left = pick(draw, [
                ['num', str(rint(draw, 0, 5))],
                num_leaf(draw, env),
                ['paren', num_expr(draw, env, depth - 2)]])
            right = pick(draw, [
                ['num', str(rint(draw, 0, 3))],
                ['bin', '^', ['num', str(rint(draw, 1, 2))],
                 ['num', str(rint(draw, 0, 2))]]])
        else:
            right = num_expr(draw, env, depth - 1)
        return ['bin', op, left, right]
    if kind == 'neg':
        return ['neg', num_expr(draw, env, depth - 1)]
    if kind == 'paren':
        return ['paren', num_expr(draw, env, depth - 1)]
    if kind == 'call' and functions(env):
        name = pick(draw, functions(env))
        return call_expr(draw, env, name, depth - 1)
    if kind == 'builtin':
        name = pick(draw, BUILTINS1)
        arg = num_expr(draw, env, depth - 1)
        if name == 'sqrt':
            arg = ['bin', '*', arg, arg] if arg[0] != 'bin' else [
                'num', str(rint(draw, 0, 400))]
        return ['call', name, [arg]]
    return num_leaf(draw, env)


def call_expr(draw, env, name, depth):
    info = env.routines[name]
    env.called.add(name)
    for assigned in may_assign(env, name):
        env.known.pop(assigned, None)
        env.assigned.add(assigned)
    args = []
    for index, ptype in enumerate(info['ptypes']):
        if index == 0 and info.get('recursive'):
            args.append(['num', str(rint(draw, 0, 3))])
        elif ptype == 'name':
            args.append(light_name(draw, env))
        else:
            args.append(num_expr(draw, env, max(0, depth)))
    return ['call', name, args]


def bool_expr(draw, env, depth=2):
    kind = pick(draw, 
        ['cmp', 'cmp', 'cmp', 'and', 'or', 'num', 'paren'])
    if depth <= 0:
        kind = 'cmp'
    if kind == 'cmp':
        op = pick(draw, ['<', '<=', '>', '>=', '==', '!='])
        return ['bin', op, num_expr(draw, env, 1), num_expr(draw, env, 1)]
    if kind in ('and', 'or'):
        return ['bin', kind, bool_expr(draw, env, depth - 1),
                bool_expr(draw, env, depth - 1)]
    if kind == 'num':
        return num_expr(draw, env, 1)
    return ['paren', bool_expr(draw, env, depth - 1)]


# ---- names of lights ---------------------------------------------------------------------
def light_name(draw, env, kinds=None):
    """Expression for a light name: literal, macro or light variable."""
    options = []
    labels = [s['label'] for s in env.pop
              if kinds is None or s.get('kind', 'plain') in kinds]
    if labels:
        options += ['label'] * 4
    if env.prof['unknown_names'] or not labels:
        options.append('unknown')
    if env.macros_str:
        options.append('macro')
    if env.light_defined:
        options += ['var', 'var']
    kind = pick(draw, options)
    if kind == 'label':
        return ['str', pick(draw, labels)]
    if kind == 'unknown':
        return ['str', pick(draw, ['Nope', 'a', 'G1'])]
    if kind == 'macro':
        return ['macro', pick(draw, sorted(env.macros_str))]
    name = pick(draw, sorted(env.light_defined))
    env.reads.add(name)
    return ['var', name]


def set_name(draw, env, which):
    names = GROUPS if which == 'group' else LOCATIONS
    if rint(draw, 0, 7) == 0 and env.prof['unknown_names']:
        return ['str', 'Nowhere']
    return ['str', pick(draw, names)]


def spec_of(env, name_expr):
    if name_expr[0] == 'str':
        for spec in env.pop:
            if spec['label'] == name_expr[1]:
                return spec
    if name_expr[0] == 'macro':
        value = env.macros_str.get(name_expr[1])
        for spec in env.pop:
            if spec['label'] == value:
                return spec
    return None


# ---- index values (zone / row / column) -----------------------------------------------------
def index_value(draw, env, lo, hi):
    """An rvalue whose run-time value is statically known to lie in lo..hi."""
    usable = [name for name, (a, b) in sorted(env.known.items())
              if lo <= a and b <= hi and name in env.defined]
    kind = pick(draw, ['lit', 'lit', 'var', 'expr'])
    if kind == 'var' and usable:
        name = pick(draw, usable)
        env.reads.add(name)
        return ['var', name], None
    value = rint(draw, lo, hi)
    if kind == 'expr':
        delta = rint(draw, 0, min(3, value - lo))
        return ['bin', '+', ['num', str(value - delta)],
                ['num', str(delta)]], value
    return ['num', str(value)], value


def index_range(draw, env, size):
    """[first, last-or-None] within 0..size-1."""
    first, first_value = index_value(draw, env, 0, size - 1)
    if flip(draw):
        return [first, None]
    lo = first_value
    if lo is None:
        lo = env.known[first[1]][1]
    last, _ = index_value(draw, env, lo, size - 1)
    if last[0] == 'var':      # keep first <= last provable
        last = ['num', str(rint(draw, lo, size - 1))]
    return [first, last]


# ---- statements ----------------------------------------------------------------------------------
def gen_setreg(draw, env):
    reg = pick(draw, 
        COLOR_REGS * 3 + ['duration', 'duration'] + RGB_REGS)
    if reg in RGB_REGS:
        value = pick(draw, 
            [int_lit(draw, 0, 100), ['num', '{}.5'.format(
                rint(draw, 0, 99))]])
    elif reg == 'kelvin':
        value = pick(draw, 
            [int_lit(draw, 1500, 9000), num_expr(draw, env, 1)])
    elif reg == 'duration':
        value = pick(draw, 
            [int_lit(draw, 0, 5), float_lit(draw), num_expr(draw, env, 1)])
    else:
        value = pick(draw, [
            int_lit(draw, 0, 360 if reg == 'hue' else 100), float_lit(draw),
            num_expr(draw, env)])
    return [['setreg', reg, value]]


def gen_time(draw, env):
    value = pick(draw, [
        ['num', '0'], int_lit(draw, 0, 5), float_lit(draw),
        num_expr(draw, env, 1)])
    return [['setreg', 'time', value]]


PATTERNS = ['8:00', '9:30', '*:15', '1*:*5', '*3:0*', '23:59', '0:00', '*:*0',
            '2*:4*', '07:07']


def gen_timeat(draw, env):
    count = pick(draw, [1, 1, 2, 3])
    pats = []
    for _ in range(count):
        if env.macros_pat and flip(draw):
            pats.append(['macro', pick(draw, env.macros_pat)])
        else:
            pats.append(['lit', pick(draw, PATTERNS)])
    env.time_pattern = [True]
    out = [['timeat', pats]]
    # use it at once and return to a numeric time so that later unit switches
    # and reads of `time` stay defined
    out.append(pick(draw, [['wait'], gen_action(draw, env)[0]]))
    out.append(['setreg', 'time', int_lit(draw, 0, 3)])
    env.time_pattern = [False]
    return out


def gen_operand(draw, env, kind):
    prof = env.prof
    options = ['light'] * 4 + ['group', 'location', 'all']
    if kind == 'set':
        if prof['w_zone']:
            options += ['zone'] * prof['w_zone']
        if prof['matrix'] and prof['w_matrix'] and env.matrix is None and (
                prof['allow_matrix_in_routine'] or not env.in_routine()):
            options += ['matrix_inline', 'matrix_block'] * prof['w_matrix']
    tag = pick(draw, options)
    if tag == 'all':
        return ['all']
    if tag == 'light':
        return ['light', light_name(draw, env)]
    if tag in ('group', 'location'):
        return [tag, set_name(draw, env, tag)]
    if tag == 'zone':
        name = light_name(draw, env, kinds=('mz',) if rint(draw, 0, 4) else None)
        spec = spec_of(env, name)
        size = spec['zones'] if spec and spec.get('kind') == 'mz' else 4
        first, last = index_range(draw, env, size)
        return ['zone', name, first, last]
    name = light_name(draw, env, kinds=('matrix',) if rint(draw, 0, 4) else None)
    spec = spec_of(env, name)
    if spec and spec.get('kind') == 'matrix':
        dims = (spec['height'], spec['width'])
    else:
        # not a matrix light: the command is ignored whatever cell below
        # 255 it names
        dims = pick(draw, [(3, 3), (3, 3), (17, 17), (255, 255)])
    if tag == 'matrix_inline':
        rows, cols, order = gen_rect(draw, env, dims)
        if rows is None and cols is None:
            rows = index_range(draw, env, dims[0])
        return ['matrix_inline', name, rows, cols, order]
    inner = env.child()
    inner.matrix = dims
    inner.matrix_target = name
    body = gen_matrix_body(draw, inner)
    env.merge_nested(inner)
    return ['matrix_block', name, body]


def gen_rect(draw, env, dims):
    rows = index_range(draw, env, dims[0]) if rint(draw, 0, 3) else None
    cols = index_range(draw, env, dims[1]) if rint(draw, 0, 3) else None
    order = pick(draw, ['rc', 'cr'])
    return rows, cols, order


def gen_stage(draw, env):
    rows, cols, order = gen_rect(draw, env, env.matrix)
    return [['stage', rows, cols, order]]


def gen_matrix_body(draw, env):
    body = []
    for _ in range(rint(draw, 0, env.prof['matrix_stages'])):
        kind = pick(draw,
                    ['stage', 'stage', 'stage', 'setreg', 'assign', 'loop',
                     'if', 'default', 'lightloop', 'units', 'other',
                     'retarget'])
        target = getattr(env, 'matrix_target', None)
        if kind == 'stage':
            body += gen_stage(draw, env)
        elif kind == 'retarget':
            # the variable that named the block's light gets another value
            # inside the block: the block is still for the light it was
            # opened for
            if target is not None and target[0] == 'var' and \
                    target[1] in LIGHT_VARS and target[1] not in env.active:
                body.append(['assign', target[1], light_name(draw, env)])
                env.light_defined.add(target[1])
                env.assigned.add(target[1])
            else:
                body += gen_stage(draw, env)
        elif kind == 'other':
            # a command that names another light (fetch its colour, switch
            # it): the block still belongs to the light it was opened for
            if flip(draw):
                body += gen_get(draw, env)
            else:
                body.append(['action', pick(draw, ['on', 'off']),
                             [['light', light_name(draw, env)]]])
        elif kind == 'units':
            # cells staged so far keep the colour they were staged with
            body += gen_units(draw, env)
        elif kind == 'setreg':
            body += gen_setreg(draw, env)
        elif kind == 'assign':
            body += gen_assign(draw, env)
        elif kind == 'loop' and env.depth < env.prof['max_depth']:
            var = pick_loop_var(draw, env)
            if var is None:
                continue
            size = env.matrix[0]
            lo = rint(draw, 0, size - 1)
            hi = rint(draw, lo, size - 1)
            inner = enter_loop(env, 'range', var, (lo, hi))
            inner_body = gen_stage_with(draw, inner, var) + gen_setreg(
                draw, inner)
            env.merge_nested(inner)
            env.note_assigned(var)
            env.spoil(var)
            body.append(['repeat', ['range', var, ['num', str(lo)],
                                    ['num', str(hi)]], inner_body])
        elif kind == 'default':
            # saving the default colour talks to no bulb: legal in a block
            body.append(['action', 'set', [['default']]])
        elif kind == 'lightloop' and env.depth < env.prof['max_depth']:
            light_var = pick_loop_var(draw, env, LIGHT_VARS)
            if light_var is None:
                continue
            inner = enter_loop(env, 'light:all')
            inner.active.add(light_var)
            inner.assigned.add(light_var)
            inner_body = gen_stage(draw, inner) + gen_setreg(draw, inner)
            env.merge_nested(inner)
            env.spoil(light_var)
            body.append(['repeat', ['all', light_var, None], inner_body])
        elif kind == 'if':
            inner = env.child()
            inner_body = gen_stage(draw, inner)
            env.merge_nested(inner)
            body.append(['if', bool_expr(draw, env, 1), inner_body, None])
    return body


def gen_stage_with(draw, env, var):
    cols = index_range(draw, env, env.matrix[1]) if flip(draw) else None
    return [['stage', [['var', var], None], cols,
             pick(draw, ['rc', 'cr'])]]


def gen_action(draw, env):
    kind = pick(draw, ['set'] * 4 + ['on', 'off'])
    if env.matrix is not None:
        return gen_stage(draw, env)
    count = pick(draw, [1, 1, 1, 2, 3])
    operands = [gen_operand(draw, env, kind) for _ in range(count)]
    if kind == 'set' and rint(
            draw, 0, 4 if env.prof['default_often'] else 14) == 0:
        operands = [['default']]
    if any(op[0] == 'all' for op in operands):
        operands = [op for op in operands if op[0] == 'all'][:1]
    return [['action', kind, operands]]


def gen_get(draw, env):
    name = light_name(draw, env, kinds=('plain',))
    spec = spec_of(env, name)
    if name[0] == 'var' or (spec and spec.get('kind', 'plain') != 'plain'):
        name = ['str', 'Nope']      # light variables may name any kind
    out = [['get', name]]
    if env.prof['reset_after_get']:
        # C12: a get that is abandoned leaves placeholder values behind
        out += [['setreg', 'hue', int_lit(draw, 0, 360)],
                ['setreg', 'saturation', int_lit(draw, 0, 100)],
                ['setreg', 'brightness', int_lit(draw, 0, 100)],
                ['setreg', 'kelvin', int_lit(draw, 1500, 9000)],
                ['setreg', 'red', int_lit(draw, 0, 100)],
                ['setreg', 'green', int_lit(draw, 0, 100)],
                ['setreg', 'blue', int_lit(draw, 0, 100)]]
    return out


def assignable(env):
    names = [n for n in NUM_NAMES if n not in env.active]
    return names


def gen_assign(draw, env):
    names = assignable(env)
    if not names:
        return []
    name = pick(draw, names)
    if (env.in_routine() and env.loop_depth > 0 and
            name in env.scope['params'] and
            not env.prof['allow_param_assign_in_loop']):
        return []
    if rint(draw, 0, 3) == 0:
        value = int_lit(draw, 0, 6)
        env.note_assigned(name)
        env.known[name] = (int(value[1]), int(value[1]))
    else:
        value = num_expr(draw, env)
        env.note_assigned(name)
    env.defined.add(name)
    return [['assign', name, value]]


def gen_light_assign(draw, env):
    names = [n for n in LIGHT_VARS if n not in env.active]
    if not names:
        return []
    name = pick(draw, names)
    value = light_name(draw, env)
    env.light_defined.add(name)
    env.assigned.add(name)
    return [['assign', name, value]]


def gen_print(draw, env):
    kind = pick(draw, ['print', 'println', 'println', 'printf'])
    if kind == 'printf':
        fields = rint(draw, 0, 3)
        if env.in_routine() and flip(draw):
            # a printf without positional fields, run while an outer printf
            # (the caller's) may be collecting its values
            fields = 0
        named = []
        if readable_nums(env) and flip(draw):
            named.append(pick(draw, readable_nums(env)))
            env.reads.add(named[-1])
        if flip(draw):
            named.append(pick(draw, COLOR_REGS))
        parts = ['{}'] * fields + ['{' + n + '}' for n in named]
        parts = draw(st.permutations(parts))
        fmt = ' '.join(['v'] + list(parts))
        args = [num_expr(draw, env, 1) for _ in range(fields)]
        if fields >= 2 and functions(env) and flip(draw):
            args[-1] = call_expr(draw, env, pick(draw, functions(env)), 0)
        return [['printf', ['str', fmt], args]]
    value = pick(draw, [
        num_expr(draw, env, 2), bool_expr(draw, env, 1),
        ['str', 'text']] + ([['var', sorted(env.light_defined)[0]]]
                            if env.light_defined else []))
    if value[0] == 'var':
        env.reads.add(value[1])
    return [[kind, value]]


def dump_statements(env):
    """print every readable numeric variable (C03 observability)."""
    out = []
    for name in readable_nums(env):
        env.reads.add(name)
        out.append(['print', ['var', name]])
    out.append(['println', None])
    # a value-less println must not be followed by something that can start
    # a value: callers only append this where a keyword statement follows;
    # to be safe the dump ends with a println of a literal.
    out[-1] = ['println', ['num', '0']]
    return out


def gen_if(draw, env):
    cond = bool_expr(draw, env)
    then_env = env.child()
    then_body = gen_block(draw, then_env)
    else_body = None
    else_env = None
    style = pick(draw, ['none', 'else', 'else', 'elif'])
    if style != 'none':
        else_env = env.child()
        if style == 'elif':
            nested = gen_if(draw, else_env)[0]
            else_body = [nested + ['chain']]
        else:
            else_body = gen_block(draw, else_env)
    env.merge_nested(then_env)
    if else_env is not None:
        env.merge_nested(else_env)
        both = then_env.defined & else_env.defined
        env.defined |= {n for n in both if n not in env.active}
        env.light_defined |= then_env.light_defined & else_env.light_defined
    return [['if', cond, then_body, else_body]]


ROUTINE_LOCALS = ['p', 'q']


def pick_loop_var(draw, env, pool=None):
    """A name for a loop variable.  Its value is unspecified after the loop,
    so it must not be a name that code executed again (the body of an
    enclosing loop) or code elsewhere (a global clobbered from inside a
    routine) may still read."""
    if pool is None:
        if env.in_routine():
            pool = [p for p in env.scope['params']
                    if not p.startswith('lt')] + ROUTINE_LOCALS
        else:
            pool = NUM_NAMES
        if env.loop_depth > 0:
            pool = [n for n in pool if n not in env.defined]
    names = [n for n in pool if n not in env.active]
    if not names:
        return None
    return pick(draw, names)


def enter_loop(env, kind, var=None, known=None, extra_active=()):
    inner = env.child()
    inner.loop_depth += 1
    inner.loop_kinds.append(kind)
    # The body runs again: only names nothing in it can assign (the active
    # loop variables) keep a statically known value.
    inner.known = {name: rng for name, rng in inner.known.items()
                   if name in inner.active}
    if var is not None:
        inner.active.add(var)
        inner.defined.add(var)
        inner.assigned.add(var)
        if known is not None:
            inner.known[var] = known
        else:
            inner.known.pop(var, None)
    for name in extra_active:
        inner.active.add(name)
    return inner


def gen_with_spec(draw, env, inner_active):
    var = pick_loop_var(draw, env)
    if var is None or var in inner_active:
        return None
    if flip(draw):
        return ['range', var, num_expr(draw, env, 1), num_expr(draw, env, 1)]
    start = None if flip(draw) else num_expr(draw, env, 1)
    return ['cycle', var, start]


def gen_repeat(draw, env):
    prof = env.prof
    kinds = ['count', 'count', 'range', 'range', 'interp', 'cycle', 'while',
             'forever']
    if prof['light_loops']:
        kinds += ['all', 'groups', 'locations', 'list', 'list']
    kind = pick(draw, kinds)
    pre = []
    if kind == 'count':
        style = pick(draw, ['lit', 'lit', 'var', 'expr'])
        count_value = rint(draw, 0, 4)
        if style == 'var':
            counter = pick_loop_var(draw, env, COUNTERS)
            if counter is None:
                style = 'lit'
        if style == 'lit':
            count = ['num', str(count_value)]
        elif style == 'var':
            pre.append(['assign', counter, ['num', str(count_value)]])
            env.defined.add(counter)
            env.note_assigned(counter)
            count = ['var', counter]
        else:
            delta = rint(draw, 0, count_value)
            count = ['bin', '+', ['num', str(count_value - delta)],
                     ['num', str(delta)]]
        inner = enter_loop(env, kind)
        body = gen_block(draw, inner)
        if style == 'var' and flip(draw):
            # the limit is evaluated once: changing it in the body is harmless
            body.append(['assign', counter, ['num', '0']])
            inner.assigned.add(counter)
        env.merge_nested(inner)
        return pre + [['repeat', ['count', count], body]]
    if kind == 'range':
        var = pick_loop_var(draw, env)
        if var is None:
            return []
        lo = rint(draw, -2, 5)
        hi = rint(draw, -2, 5)
        inner = enter_loop(env, kind, var, (min(lo, hi), max(lo, hi)))
        body = gen_block(draw, inner)
        env.merge_nested(inner)
        env.note_assigned(var)
        env.spoil(var)
        first = ['num', str(lo)] if lo >= 0 else ['neg', ['num', str(-lo)]]
        last = ['num', str(hi)] if hi >= 0 else ['neg', ['num', str(-hi)]]
        return [['repeat', ['range', var, first, last], body]]
    if kind in ('interp', 'cycle'):
        var = pick_loop_var(draw, env)
        if var is None:
            return []
        low = 0 if (kind != 'cycle' or prof['allow_zero_cycle']) else 1
        count = ['num', str(rint(draw, low, 5))]
        if kind == 'interp':
            spec = ['interp', count, var, num_expr(draw, env, 1),
                    num_expr(draw, env, 1)]
        else:
            start = None if flip(draw) else num_expr(draw, env, 1)
            spec = ['cycle', count, var, start]
        inner = enter_loop(env, kind, var)
        body = gen_block(draw, inner)
        env.merge_nested(inner)
        env.note_assigned(var)
        env.spoil(var)
        return [['repeat', spec, body]]
    if kind in ('while', 'forever'):
        counter = pick_loop_var(draw, env, COUNTERS)
        if counter is None:
            return []
        limit = rint(draw, 0, 4)
        pre.append(['assign', counter, ['num', '0']])
        env.defined.add(counter)
        env.note_assigned(counter)
        extra = None
        if kind == 'while' and flip(draw):
            # before the body: the condition cannot use what the body defines
            extra = bool_expr(draw, env, 1)
        inner = enter_loop(env, kind, counter)
        body = gen_block(draw, inner)
        bump = ['assign', counter, ['bin', '+', ['var', counter],
                                    ['num', '1']]]
        if kind == 'while':
            cond = ['bin', '<', ['var', counter], ['num', str(limit)]]
            if extra is not None:
                cond = ['bin', 'and', cond, extra]
            body = body + [bump]
            spec = ['while', cond]
        else:
            guard = ['if', ['bin', '>=', ['var', counter],
                            ['num', str(limit)]], [['break']], None]
            body = [guard] + body + [bump]
            spec = ['forever']
        env.merge_nested(inner)
        env.known.pop(counter, None)
        return pre + [['repeat', spec, body]]
    # ---- light iteration ----------------------------------------------------
    light_var = pick_loop_var(draw, env, LIGHT_VARS)
    if light_var is None:
        return []
    with_spec = None
    if flip(draw):
        with_spec = gen_with_spec(draw, env, {light_var})
        if (with_spec and with_spec[0] == 'cycle'
                and not prof['allow_zero_cycle']):
            with_spec = None
    if kind == 'all':
        spec = ['all', light_var, with_spec]
    elif kind in ('groups', 'locations'):
        spec = [kind, light_var, with_spec]
    else:
        sources = []
        for _ in range(rint(draw, 1, 3)):
            which = pick(draw, ['light', 'light', 'group',
                                          'location'])
            if which == 'light':
                sources.append(['light', light_name(draw, env)])
            else:
                sources.append([which, set_name(draw, env, which)])
        spec = ['list', sources, light_var, with_spec]
    inner = enter_loop(env, 'light:' + kind)
    inner.active.add(light_var)
    inner.assigned.add(light_var)
    if kind in ('groups', 'locations'):
        # the variable holds a group / location name, not a light
        inner.set_var = (light_var, 'group' if kind == 'groups'
                         else 'location')
    else:
        inner.light_defined.add(light_var)
    if with_spec is not None:
        inner.active.add(with_spec[1])
        inner.defined.add(with_spec[1])
        inner.assigned.add(with_spec[1])
        inner.known.pop(with_spec[1], None)
    body = []
    if kind in ('groups', 'locations'):
        which = 'group' if kind == 'groups' else 'location'
        body.append(['action', pick(draw, ['set', 'on', 'off']),
                     [[which, ['var', light_var]]]])
        body.append(['print', ['var', light_var]])
    else:
        body.append(['action', pick(draw, ['set', 'on', 'off']),
                     [['light', ['var', light_var]]]])
    if with_spec is not None:
        body.append(['print', ['var', with_spec[1]]])
    body += gen_block(draw, inner)
    env.merge_nested(inner)
    if with_spec is not None:
        env.spoil(with_spec[1])
    env.spoil(light_var)
    return [['repeat', spec, body]]


def callable_routines(env):
    return sorted(name for name, info in env.routines.items()
                  if 'assigns' in info and reads_ok(env, name)
                  and not (env.active & may_assign(env, name))
                  and name != (env.scope or {}).get('name'))


def gen_call(draw, env):
    names = callable_routines(env)
    if not names:
        return []
    name = pick(draw, names)
    call = call_expr(draw, env, name, 1)
    for assigned in may_assign(env, name):
        env.known.pop(assigned, None)
        env.assigned.add(assigned)
    out = [['call', call[1], call[2]]]
    if env.prof['dump_after_call']:
        out += dump_statements(env)
    return out


def gen_break(draw, env):
    if env.loop_depth == 0:
        return []
    if (not env.prof['allow_break_in_light_loop'] and
            any(k.startswith('light') for k in env.loop_kinds)):
        return []
    if flip(draw):
        return [['if', bool_expr(draw, env, 1), [['break']], None]]
    return [['break']]


def gen_return(draw, env):
    if not env.in_routine():
        return []
    if env.loop_depth > 0 and not env.prof['allow_return_in_loop']:
        return []
    if env.scope['function']:
        ret = ['return', num_expr(draw, env, 1)]
    else:
        ret = ['return', None]
    return [['if', bool_expr(draw, env, 1), [ret], None]]


def gen_define(draw, env):
    if env.in_routine() or env.depth > 0:
        return []
    kind = pick(draw, ['num', 'num', 'str', 'pat', 'alias'])
    name = env.fresh('M')
    if kind == 'num':
        lit = pick(draw, [int_lit(draw, 0, 100), float_lit(draw)])
        env.macros_num[name] = lit[1]
        return [['define', name, lit]]
    if kind == 'str':
        value = pick(draw, env.labels + ['Nope'])
        env.macros_str[name] = value
        return [['define', name, ['str', value]]]
    if kind == 'pat':
        env.macros_pat.append(name)
        return [['define', name, ['pat', pick(draw, PATTERNS)]]]
    if env.macros_num:
        other = pick(draw, sorted(env.macros_num))
        env.macros_num[name] = env.macros_num[other]
        return [['define', name, ['macro', other]]]
    return []


def gen_routine(draw, env):
    if env.in_routine() or not env.prof['routines'] or env.matrix is not None:
        return []
    if env.depth > 0 and not env.prof.get('routine_in_blocks'):
        return []
    function = flip(draw)
    name = env.fresh('f' if function else 'r')
    n_params = pick(draw, [0, 1, 1, 2, 2, 3, 4])
    pool = NUM_NAMES + ['lt1']
    params = list(draw(st.permutations(pool)))[:n_params]
    recursive = (function and env.prof['recursion']
                 and rint(draw, 0, 3) == 0)
    if recursive:
        params = ['n'] + params[:2]
    ptypes = ['name' if p.startswith('lt') else 'num' for p in params]
    inner = env.child()
    inner.depth = 1
    inner.scope = {'params': params, 'function': function, 'name': name}
    inner.loop_depth = 0
    inner.loop_kinds = []
    inner.active = set()
    inner.assigned = set()
    inner.called = set()
    inner.reads = set()
    inner.globals_ok = set(env.defined) | set(env.light_defined)
    inner.known = {}
    # readable: globals definitely assigned at definition time, unless hidden
    inner.defined = set(env.defined) | {p for p in params
                                        if not p.startswith('lt')}
    inner.light_defined = set(env.light_defined) | {
        p for p in params if p.startswith('lt')}
    info = {'params': params, 'ptypes': ptypes, 'function': function,
            'calls': set()}
    if recursive:
        inner.active.add('n')
    env.routines[name] = info       # visible to itself only via the template
    base_value = num_expr(draw, inner, 1) if recursive else None
    body = gen_block(draw, inner, top=False)
    if recursive:
        args = [['bin', '-', ['var', 'n'], ['num', '1']]]
        for ptype in ptypes[1:]:
            args.append(light_name(draw, inner) if ptype == 'name'
                        else num_expr(draw, inner, 1))
        base = ['if', ['bin', '<=', ['var', 'n'], ['num', '0']],
                [['return', base_value]], None]
        rec = ['assign', pick(draw, NUM_NAMES),
               ['bin', '+', ['call', name, args], ['num', '1']]]
        inner.assigned.add(rec[1])
        inner.defined.add(rec[1])
        body = [base] + body + [rec]
        info['recursive'] = True
    if function and env.prof['light_loops'] and env.prof[
            'allow_return_in_loop'] and rint(draw, 0, 3) == 0:
        # return from a loop nested in a light-iteration loop: the names still
        # to be visited must not leak into the caller's expression
        light_var = pick(draw, LIGHT_VARS)
        guard = bool_expr(draw, inner, 1)
        value = num_expr(draw, inner, 1)
        inner_loop = ['repeat', ['count', ['num', str(rint(draw, 1, 3))]],
                      [['if', guard, [['return', value]], None]]]
        source = pick(draw, ['all', 'list'])
        spec = ['all', light_var, None] if source == 'all' else [
            'list', [['group', set_name(draw, env, 'group')],
                     ['light', light_name(draw, inner)]], light_var, None]
        body.append(['repeat', spec, [inner_loop]])
        inner.assigned.add(light_var)
    if function:
        body.append(['return', num_expr(draw, inner, 2)])
    info['assigns'] = {n for n in inner.assigned if n not in params}
    info['calls'] = set(inner.called)
    info['reads'] = {n for n in inner.reads
                     if n in inner.globals_ok and n not in params}
    env.time_pattern = inner.time_pattern
    return [['routine', name, params, body]]


def gen_units(draw, env):
    if not env.prof['units']:
        return []
    mode = pick(draw, ['logical', 'raw', 'rgb'])
    pre = [['setreg', 'hue', int_lit(draw, 0, 360)],
           ['setreg', 'saturation', int_lit(draw, 0, 100)],
           ['setreg', 'brightness', int_lit(draw, 0, 100)],
           ['setreg', 'red', int_lit(draw, 0, 100)],
           ['setreg', 'green', int_lit(draw, 0, 100)],
           ['setreg', 'blue', int_lit(draw, 0, 100)],
           ['setreg', 'kelvin', int_lit(draw, 1500, 9000)],
           ['setreg', 'duration', int_lit(draw, 0, 3)],
           ['setreg', 'time', int_lit(draw, 0, 3)]]
    env.time_pattern = [False]
    return pre + [['units', mode]]


GENERATORS = {
    'setreg': gen_setreg, 'action': gen_action, 'get': gen_get,
    'wait': lambda draw, env: [['wait']], 'time': gen_time,
    'timeat': gen_timeat, 'assign': gen_assign, 'if': gen_if,
    'repeat': gen_repeat, 'call': gen_call, 'print': gen_print,
    'units': gen_units, 'break': gen_break, 'return': gen_return,
    'define': gen_define, 'routine': gen_routine,
    'light_assign': gen_light_assign,
}


def statement_kinds(env):
    prof = env.prof
    kinds = []
    for kind in ('setreg', 'action', 'get', 'wait', 'time', 'timeat',
                 'assign', 'print', 'units', 'define', 'routine', 'call'):
        kinds += [kind] * prof['w_' + kind]
    kinds += ['light_assign']
    if env.depth < prof['max_depth']:
        kinds += ['if'] * prof['w_if'] + ['repeat'] * prof['w_repeat']
    if env.loop_depth > 0:
        kinds += ['break'] * prof['w_break']
    if env.in_routine():
        kinds += ['return'] * prof['w_return']
    if env.matrix is not None:
        kinds = ['setreg', 'assign']
    return kinds


def gen_block(draw, env, top=False):
    limit = env.prof['max_top'] if env.depth == 0 else env.prof['max_block']
    count = rint(draw, 1 if env.depth else 2, limit)
    body = []
    for _ in range(count):
        kind = pick(draw, statement_kinds(env))
        body += GENERATORS[kind](draw, env)
    if not body:
        body = [['wait']]
    return body


@st.composite
def programs(draw, prof=None, need=()):
    prof = prof or DEFAULT_PROFILE
    pop = draw(populations(prof['max_pop'], need))
    env = Env(pop, prof)
    body = []
    if prof['routines']:
        # A prelude makes routines (and globals for them to hide) available
        # early, so that calls are common in what follows.
        for _ in range(rint(draw, 0, prof.get('prelude_routines', 3))):
            if flip(draw):
                body += gen_assign(draw, env)
            body += gen_routine(draw, env)
    body += gen_block(draw, env)
    return {'population': pop, 'program': body}
