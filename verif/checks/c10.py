"""C10 - delays run on one time line from script start; time-of-day waits
restart it; lateness is not accumulated; a zero delay never blocks."""
from hypothesis import given, seed, strategies as st

from verif import conc, env
from verif.checks import progbase
from verif.lang import timepat
from verif.runner import Acc

ID = 'C10'
LEVEL = 'exploration'
RULE = (
    'Discrete-event oracle in virtual time on the deterministic scheduler '
    'with the REAL Machine, lib.clock.Clock and JobControl. Scenario: one '
    'script made of 3..8 segments, each an optional `time d` (d in 0, '
    'fractions of a tick, several ticks; seconds in logical units, '
    'milliseconds in raw units), optionally a `time at P` that matches '
    'within the next minutes of the generated wall-clock start, and an '
    'action (on / off / set / wait), optionally preceded by a `units` '
    'switch to any mode (the time value in force must keep its meaning), '
    'whose simulated device charges a '
    'generated amount of work time (none, shorter than, equal to, longer '
    'than the delay); tick length 1/16 .. 2 s; schedules = generated '
    'preemptions of the clock thread against the script thread, and in a '
    'third of the cases 1..3 clock ticks that come 0.125 .. 3 s late (a '
    'loaded host; the bound below is widened by exactly that much). From the '
    'recorded history: with S the instant Machine.run reset the clock (or '
    'the instant a time-of-day wait ended) and D_k = S + d_1 + .. + d_k, the '
    'k-th delay is requested with exactly d_k seconds, never ends before '
    'D_k, ends at its call time when the script is already behind (no '
    'accumulated lateness), otherwise at a clock tick no later than D_k + 2 '
    'ticks (1 tick without preemptions); a zero delay makes no request at '
    'all; a time-of-day wait ends within 2 ticks of the first matching '
    'minute and resets the time line. Non-trivial = >= 3 positive delays '
    'with at least one shorter and one longer than the work before it. '
    'Distinct by scenario + schedule.')
ASSUMPTIONS = [
    'Computation takes zero virtual time except where a simulated device '
    'charges work; all durations are multiples of 1/1024 s so sums are exact.',
]
POP = [{'label': 'L1', 'group': 'G', 'location': 'L'}]


@st.composite
def scenarios(draw):
    raw = draw(st.booleans())
    tick = draw(st.sampled_from([0.0625, 0.125, 0.25, 0.5, 1.0, 2.0]))
    work = draw(st.sampled_from([0, 0.125, 0.25, 0.5, 1.0, 1.5]))
    minute_offset = draw(st.sampled_from([0, 1, 2]))
    start = [7, 58, draw(st.sampled_from([0, 30, 59]))]
    lines = ['units raw'] if raw else []
    plan = []       # ('delay', seconds) | ('cmd',) | ('until', pattern)
    current = 0
    long_used = False
    for _ in range(draw(st.integers(3, 8))):
        kind = draw(st.sampled_from(
            ['time', 'time', 'time', 'keep', 'timeat', 'units']))
        if kind == 'units' and not isinstance(current, tuple):
            # the pending time value is re-expressed, not changed
            mode = draw(st.sampled_from(['raw', 'logical', 'rgb']))
            lines.append('units ' + mode)
            raw = mode == 'raw'
        if kind == 'time':
            current = draw(st.sampled_from(
                [0, 0.125, 0.25, 0.5, 1.0, 1.5, 3.0]))
            if tick >= 1.0 and not long_used and draw(
                    st.integers(0, 3)) == 0:
                # longer than 16 bits' worth of milliseconds
                current = draw(st.sampled_from([66.0, 70.5, 100.0]))
                long_used = True
            text = '{:g}'.format(current * 1000 if raw else current)
            lines.append('time ' + text)
        elif kind == 'timeat' and tick >= 0.125 and not any(
                p[0] == 'until' for p in plan):
            minute = 59 + minute_offset
            pattern = draw(st.sampled_from([
                '{}:{:02d}'.format(7 + minute // 60, minute % 60),
                '*:{:02d}'.format(minute % 60),
                '{}:*{}'.format(7 + minute // 60, minute % 10)]))
            lines.append('time at ' + pattern)
            current = ('until', pattern)
        action = draw(st.sampled_from(['on "L1"', 'off "L1"', 'wait',
                                       'set "L1"']))
        lines.append(action)
        if isinstance(current, tuple):
            plan.append(current)
            # after the wait the register still holds the pattern: set a
            # numeric time again for what follows
            current = draw(st.sampled_from([0, 0.25, 1.0]))
            lines.append('time ' + '{:g}'.format(
                current * 1000 if raw else current))
        elif current > 0:
            plan.append(('delay', current))
        if action != 'wait':
            plan.append(('cmd',))
    late_ticks = {}
    if draw(st.integers(0, 2)) == 0:
        # the host holds the clock thread up now and then
        for _ in range(draw(st.integers(1, 3))):
            late_ticks[str(draw(st.integers(1, 40)))] = draw(
                st.sampled_from([0.125, 0.5, 1.0, 3.0]))
    clients = [[['add', 's'], ['wait_idle', 600]]]
    scripts = {'s': '\n'.join(lines)}
    if draw(st.integers(0, 3)) == 0:
        # another script starts and ends while this one runs: its clock is
        # its own, this script's time line does not notice
        scripts['bg'] = draw(st.sampled_from(
            ['time 0.5 wait time 0.25 wait', 'wait', 'time 2 wait']))
        clients.append([['pause', draw(st.sampled_from([0.125, 0.625, 1.125]))],
                        ['spawn', 'bg']])
    return {'population': POP, 'tick': tick, 'late_ticks': late_ticks,
            'work': {'set_power': work, 'set_color': work},
            'start': start, 'scripts': scripts,
            'plan': plan, 'clients': clients}


@st.composite
def schedules(draw):
    preemptions = {}
    for _ in range(draw(st.integers(0, 6))):
        preemptions[str(draw(st.integers(1, 1500)))] = draw(st.integers(0, 3))
    return {'preemptions': preemptions,
            'choices': draw(st.lists(st.integers(0, 3), max_size=10))}


def analyse(scenario, result, preempted):
    log = result.sched.log
    if result.outcome == 'harness-timeout':
        raise env.HarnessError(str(result.sched.detail))
    if result.outcome == 'step-limit':
        return [], ['inconclusive-step-budget'], False
    if result.outcome != 'finished':
        return [(result.outcome, '{}: {}'.format(
            result.outcome, result.sched.detail))], [], False
    tick = scenario['tick']
    overrun = sum(scenario.get('late_ticks', {}).values())
    start = next((e for e in log if e[3] == 'job-start' and e[4] == 's'),
                 None)
    if start is None:
        return [('not-started', 'the job never started')], [], False
    thread = start[2]
    mine = [e for e in log if e[2] == thread]
    ticks = sorted({e[0] for e in log if e[3] == 'tick'})
    problems = []
    labels = ['late-ticks'] if overrun else []
    if 'bg' in scenario['scripts']:
        labels.append('another-script-alongside')
    plan = list(scenario['plan'])
    base = None
    total = 0.0
    index = 0
    pending = None
    shorter = longer = False
    positive = 0
    last_event_time = None
    reset_in_wait = False
    wall0 = scenario['start'][0] * 3600 + scenario['start'][1] * 60 + \
        scenario['start'][2]
    for event in mine:
        kind = event[3]
        if kind == 'clock-reset':
            base = event[0]
            total = 0.0
            reset_in_wait = True
        elif kind == 'pause-call':
            while index < len(plan) and plan[index][0] == 'cmd':
                index += 1
            if index >= len(plan) or plan[index][0] != 'delay':
                problems.append(('unexpected-delay',
                                 'a delay of {} s was requested where the '
                                 'script has none'.format(event[4])))
                break
            want = plan[index][1]
            if abs(event[4] - want) > 1e-9:
                problems.append(('delay-value',
                                 'delay #{} requested {} s, the script says '
                                 '{} s'.format(index, event[4], want)))
                break
            total += want
            pending = (event[0], base + total, want)
            positive += 1
        elif kind == 'pause-ret' and pending is not None:
            called, due, want = pending
            ended = event[0]
            work_before = called - (last_event_time if last_event_time
                                    is not None else called)
            if called < due:
                shorter = True
                if ended < due - 1e-9:
                    problems.append(('early',
                                     'delay #{} ended at {} before its due '
                                     'time {}'.format(index, ended, due)))
                limit = due + (2 if preempted or overrun else 1) * tick + \
                    overrun + 1e-9
                if ended > limit:
                    problems.append(('late',
                                     'delay #{} due at {} ended at {} (tick '
                                     '{})'.format(index, due, ended, tick)))
                elif ended > due + 1e-9 and not overrun and not any(
                        abs(ended - t) < 1e-9 for t in ticks):
                    problems.append(('not-at-a-tick',
                                     'delay #{} ended at {} which is not a '
                                     'clock tick'.format(index, ended)))
            else:
                longer = True
                if ended > called + 1e-9:
                    problems.append(('lateness-accumulated',
                                     'delay #{} was already due at {} when '
                                     'requested at {} but blocked until {}'
                                     .format(index, due, called, ended)))
            pending = None
            index += 1
            last_event_time = ended
        elif kind == 'until-call':
            while index < len(plan) and plan[index][0] == 'cmd':
                index += 1
            if index >= len(plan) or plan[index][0] != 'until':
                problems.append(('unexpected-time-of-day-wait', ''))
                break
            pending = ('until', event[0], plan[index][1])
            reset_in_wait = False
        elif kind == 'until-ret' and pending is not None \
                and pending[0] == 'until':
            _, called, pattern = pending
            table = timepat.denotation(pattern)
            ended = event[0]

            def matches(moment):
                seconds = int(wall0 + moment)
                return ((seconds // 3600) % 24, (seconds // 60) % 60) in table
            first = called
            while not matches(first) and first < called + 7200:
                first = (int(wall0 + first) // 60 + 1) * 60 - wall0
            labels.append('time-of-day-wait')
            if not matches(ended):
                problems.append(('time-of-day-wrong-minute',
                                 'time at {} ended at wall time +{} s, which '
                                 'does not match'.format(pattern, ended)))
            elif ended > first + 2 * tick + overrun + 1e-9:
                problems.append(('time-of-day-late',
                                 'time at {} first matched at +{} s but the '
                                 'wait ended at +{} s'.format(
                                     pattern, first, ended)))
            if not reset_in_wait or abs(base - ended) > 1e-9:
                problems.append(('time-line-not-restarted',
                                 'after time at {} ended at +{} s the delay '
                                 'time line was not restarted there (it '
                                 'starts at {})'.format(pattern, ended, base)))
            pending = None
            index += 1
            last_event_time = ended
        elif kind == 'cmd':
            last_event_time = event[0]
    delays_planned = sum(1 for p in plan if p[0] == 'delay')
    if not problems and positive != delays_planned:
        problems.append(('delay-count',
                         '{} delays were requested, the script has {} '
                         'positive ones'.format(positive, delays_planned)))
    commands = sum(1 for e in mine if e[3] == 'cmd')
    if not problems and commands != sum(1 for p in plan if p[0] == 'cmd'):
        problems.append(('command-count', '{} commands sent, expected {}'
                         .format(commands, sum(1 for p in plan
                                               if p[0] == 'cmd'))))
    nontrivial = positive >= 3 and shorter and longer
    return problems, labels, nontrivial


def check(acc, scenario, schedule, label='random'):
    preemptions = {int(k): v for k, v in schedule['preemptions'].items()}
    result = conc.run(scenario, preemptions, list(schedule['choices']),
                      step_limit=80000,
                      line_switches=schedule.get('line_switches'))
    preempted = bool(result.sched.preemptions_taken) or bool(
        schedule['choices'])
    problems, labels, nontrivial = analyse(scenario, result, preempted)
    acc.case(key=repr((scenario['scripts'], scenario['tick'],
                       scenario['work'], scenario['start'],
                       scenario.get('late_ticks'), schedule)),
             nontrivial=nontrivial,
             labels=[label, 'raw' if scenario['scripts']['s'].startswith(
                 'units raw') else 'logical'] + labels + (
                     ['delay-beyond-65535-ms'] if any(
                         step[0] == 'delay' and step[1] > 65.535
                         for step in scenario.get('plan', [])) else []),
             sample={'script': scenario['scripts']['s'],
                     'tick': scenario['tick'], 'work': scenario['work'],
                     'start': scenario['start'],
                     'late_ticks': scenario.get('late_ticks'),
                     'schedule': schedule}
             if nontrivial and len(acc.samples) < 3 else None)
    for sig, what in problems[:1]:
        acc.fail(sig, '{}\n--- script ---\n{}\ntick {} work {} start {} '
                 'late ticks {} schedule {}'.format(
                     what, scenario['scripts']['s'], scenario['tick'],
                     scenario['work'], scenario['start'],
                     scenario.get('late_ticks'), schedule),
                 {'kind': 'schedule', 'scenario': scenario,
                  'schedule': schedule})


def plan(tier, seed_value):
    per = 3000 if tier == 'thorough' else 120
    return [{'seed': seed_value * 1000 + k, 'examples': per}
            for k in range(16)]


def run_shard(spec):
    acc = Acc()

    @seed(spec['seed'])
    @progbase.hyp_settings(spec['examples'])
    @given(scenarios(), schedules())
    def run(scenario, schedule):
        check(acc, scenario, schedule)
    run()
    return acc


def replay(case):
    acc = Acc()
    check(acc, case['scenario'], case['schedule'], 'replay')
    return [(f['sig'], f['what']) for f in acc.failures.values()]
