"""C16 - compilation depends only on the token sequence; every documented name
is usable; strings may contain any character but a double quote / line break."""
import itertools
import keyword

from hypothesis import given, seed, strategies as st

from verif import env, progcheck, runner  # noqa: F401
from verif.checks import progbase
from verif.lang import gen, printer
from verif.runner import Acc

ID = 'C16'
LEVEL = 'exploration'
RULE = (
    '(1) Metamorphic re-layout: a generated valid program is printed once '
    'canonically and again with arbitrary spaces / tabs / line breaks '
    'between tokens, NO white space next to operators, braces, brackets and '
    'parentheses, comments appended to lines, H S B K for the four register '
    'names; the instruction listings of both compiles must be identical. '
    'Brackets round statement-level calls must also give an identical '
    'listing; curly braces round single values an identical execution trace. '
    '(2) Identifiers: every name of length <= 2 over the documented '
    'alphabet, every case variant of every keyword / register / abbreviation '
    '/ internal token-class, register, op-code and operand name, Python '
    'keywords and Hypothesis-generated names up to length 8 - minus the '
    'documented keywords, registers, H S B K, the built-in function names and '
    'the undocumented words `not`, `breakpoint`, `null` - each used as '
    'variable, macro, parameter and routine name in fixed templates with '
    'known output, plus case-differing pairs. (3) Strings over all of '
    'Unicode except `"`, line breaks (and a backslash directly before the '
    'closing quote unless a known finding is open), biased to the token '
    'vocabulary, printed and used as light names: printed verbatim, and the '
    'device with exactly that label is addressed. Non-trivial = a re-layout '
    'that removed white space next to an operator or brace; an identifier '
    'that collides case-insensitively with a token class; a string that '
    'contains a token-vocabulary character. Distinct by text.')
ASSUMPTIONS = [
    'Curly braces round a single value may change the instruction listing '
    '(PUSHQ/POP for MOVEQ) but not the behaviour; only the trace is compared.',
    'Carriage return, vertical tab, form feed, NEL and the Unicode line / '
    'paragraph separators count as line breaks and are not generated inside '
    'strings.',
]

DOCUMENTED = set(
    'all and as assign at begin break column cycle default define else end '
    'from get group if in location logical off on or print printf println '
    'pause raw row repeat return rgb set stage to units while with wait zone '
    'hue saturation brightness kelvin red green blue duration time '
    'H S B K'.split())
UNDOCUMENTED_WORDS = {'not', 'breakpoint'}
BUILTINS = {'round', 'trunc', 'floor', 'ceil', 'sqrt', 'sin', 'cos', 'tan',
            'asin', 'acos', 'atan', 'cycle', 'random'}
TEMPLATE_NAMES = {'q_r', 'q_p', 'q_v', 'q_f'}
FIRST = 'abcdefghijklmnopqrstuvwxyzABCDEFGHIJKLMNOPQRSTUVWXYZ_'
REST = FIRST + '0123456789'


def usable(name):
    return (name not in DOCUMENTED and name not in UNDOCUMENTED_WORDS
            and name not in BUILTINS and name not in TEMPLATE_NAMES)


def internal_names():
    from bardolph.parser.token import TokenTypes
    from bardolph.vm.vm_codes import (IoOp, JumpCondition, LoopVar, OpCode,
                                      Operand, Operator, Register, SetOp)
    from bardolph.lib.symbol import SymbolType
    names = set()
    for enum in (TokenTypes, Register, OpCode, Operand, Operator, IoOp,
                 JumpCondition, LoopVar, SetOp, SymbolType):
        names.update(member.name for member in enum)
    return names


def case_variants(word):
    word = word.lower()
    return {word, word.upper(), word.capitalize(),
            word[0] + word[1:].upper() if len(word) > 1 else word.upper(),
            ''.join(c.upper() if i % 2 else c for i, c in enumerate(word))}


def fixed_identifiers():
    names = set(FIRST)
    names.update(a + b for a in FIRST for b in REST)
    for word in sorted(DOCUMENTED | UNDOCUMENTED_WORDS | internal_names() |
                       BUILTINS | set(keyword.kwlist) |
                       {'True', 'False', 'None', 'self', 'print_', 'eof',
                        'number', 'name', 'mark', 'error', 'unknown'}):
        names.update(case_variants(word))
        names.add(word.lower() + '_')
        names.add('_' + word.lower())
        names.add(word.lower() + '2')
    return sorted(n for n in names if usable(n) and n[0] in FIRST)


# ---- identifier templates ---------------------------------------------------------
def identifier_scripts(name):
    """[(role, script, expected printed values)]"""
    other = name + 'x'
    scripts = [
        ('variable',
         'assign {0} 7 println {0} assign {0} {{{0} + 1}} println {0} '
         'printf "v {{{0}}}" if {{{0} == 8}} println 1'.format(name),
         [7, 8, 'v 8', 1]),
        ('macro',
         'define {0} 9 saturation {0} println saturation println {0} '
         'define {1} {0} println {1}'.format(name, other), [9, 9, 9]),
        ('parameter',
         'assign q_v 1 define q_r with {0} q_p begin println {0} '
         'assign {0} {{{0} * 3}} println {0} println q_p end '
         'q_r 5 6 println q_v'.format(name), [5, 15, 6, 1]),
        ('routine',
         'define {0} with q_p begin return {{q_p * 2}} end '
         'println [{0} 4] define {1} begin println 3 end {1} '
         'assign q_v [{0} [{0} 1]] println q_v'.format(name, other),
         [8, 3, 4]),
        ('loop-variable',
         'repeat with {0} from 1 to 2 begin println {0} end '
         'repeat 2 with {0} cycle 0 begin println {0} end'.format(name),
         [1, 2, 0, 180]),
    ]
    # usable as a parameter or local also when a routine of that name exists
    scripts.append((
        'parameter-hiding-routine',
        'define {0} begin println 9 return 3 end '
        'define q_r with {0} begin println {0} assign q_v {0} '
        'return {0} end println [q_r 5] println [{0}]'.format(name),
        [5, 5, 9, 3]))
    swapped = name.swapcase()
    if swapped != name and usable(swapped):
        scripts.append((
            'case-pair',
            'assign {0} 1 assign {1} 2 println {0} println {1}'.format(
                name, swapped), [1, 2]))
    return scripts


_world = None


def world():
    from verif.harness import shared_world
    return shared_world('c16', [{'label': 'A', 'group': 'G', 'location': 'L'}])


def printed(script):
    w = world()
    del w.trace[:]
    del w.log.records[:]
    try:
        result = w.run(script, budget=20000)
    except Exception as ex:
        return 'crash: {!r}'.format(ex), None
    if not result.compiled:
        return 'rejected: ' + result.errors.strip()[:100], None
    if result.aborted:
        return 'aborted: ' + result.aborted[:100], None
    return None, [e[1] for e in result.trace if e[0] == 'out']


def check_identifier(acc, name):
    lowered = name.lower()
    collides = (lowered in DOCUMENTED or lowered in UNDOCUMENTED_WORDS or
                lowered in {n.lower() for n in internal_names()})
    for role, script, expected in identifier_scripts(name):
        problem, outputs = printed(script)
        acc.case(key=script, nontrivial=collides,
                 labels=['identifier', 'role:' + role],
                 sample={'name': name, 'role': role, 'script': script}
                 if collides and len(acc.samples) < 3 else None)
        case = {'kind': 'identifier', 'name': name}
        if problem is not None:
            acc.fail('identifier-{}:{}'.format(role, problem.split(':')[0]),
                     'the name {!r} used as {}: {} -- {}'.format(
                         name, role, problem, script), case)
        elif not _same(outputs, expected):
            acc.fail('identifier-{}:wrong-output'.format(role),
                     'the name {!r} used as {} printed {} expected {} -- {}'
                     .format(name, role, outputs, expected, script), case)


def _same(outputs, expected):
    if len(outputs) != len(expected):
        return False
    for got, want in zip(outputs, expected):
        if isinstance(want, str) or isinstance(got, str):
            if got != want:
                return False
        elif abs(got - want) > 1e-9:
            return False
    return True


# ---- strings ----------------------------------------------------------------------------
LINE_BREAKS = '\n\r\x0b\x0c\x85  '
VOCAB_CHARS = '{}[]()+-*/%^<>=!#:.,;\'\\ \t'
string_chars = st.one_of(
    st.sampled_from(list(VOCAB_CHARS) + ['and', 'or', 'end', 'begin', '8:00',
                                         '\x1c', '\x1d', '\x1e', '\xa0',
                                         '{}', '{0}', '\\n']),
    st.characters(blacklist_characters='"' + LINE_BREAKS,
                  blacklist_categories=('Cs',)))


# whole strings that coincide with a piece of syntax or with a name in scope
WHOLE_STRINGS = [']', '}', ')', '[', '{', '(', 'round', 'random', 'q_r',
                 'q_w', 'all', 'default', 'end', 'begin', 'and', 'as', 'a',
                 'q_v', '#', '-', '8:00', '5', 'not', 'with', 'zone']


@st.composite
def strings(draw, allow_trailing_backslash):
    if draw(st.integers(0, 3)) == 0:
        return draw(st.sampled_from(WHOLE_STRINGS))
    parts = draw(st.lists(string_chars, min_size=0, max_size=12))
    text = ''.join(parts)
    text = text.replace('\\"', '\\ ')
    if not allow_trailing_backslash:
        while text.endswith('\\'):
            text = text[:-1] + '/'
    return text


def check_string(acc, text):
    from verif.harness import World
    case = {'kind': 'string', 'text': text}
    nontrivial = any(c in VOCAB_CHARS.strip() for c in text) or text == ''
    labels = ['string']
    if text.endswith('\\'):
        labels.append('trailing-backslash')
    acc.case(key=text, nontrivial=nontrivial, labels=labels,
             sample={'string': text} if nontrivial and len(acc.samples) < 3
             else None)
    suffix = ':trailing-backslash' if text.endswith('\\') else ''
    problem, outputs = printed('println "{}" assign q_v "{}" print q_v'
                               .format(text, text))
    if problem is not None:
        acc.fail('string-print:' + problem.split(':')[0] + suffix,
                 'println "{0}" -> {1}'.format(text, problem), case)
        return
    if outputs != [text, text]:
        acc.fail('string-print:altered' + suffix,
                 'println of the string {!r} wrote {!r}'.format(text, outputs),
                 case)
        return
    # as an argument (plain and bracketed call), as a macro value that is
    # defined while routines exist, as the whole value of a variable whose
    # name it may equal, last on a line and followed by more text
    problem, outputs = printed(
        'define q_r with q_p println q_p define q_w begin println 7 end '
        'q_r "{0}" [q_r "{0}"] define q_m "{0}" println q_m '
        'assign a "{0}" println a'.format(text))
    if problem is not None:
        import re
        shape = re.sub(r'"[^"]*"|\d+', '', problem.split(':', 2)[-1])
        shape = '-'.join(shape.split()[:4])
        acc.fail('string-argument:' + problem.split(':')[0] + ':' + shape +
                 suffix,
                 'the string "{0}" as argument / macro value / variable '
                 'value -> {1}'.format(text, problem), case)
        return
    if outputs != [text] * 4:
        acc.fail('string-argument:altered' + suffix,
                 'the string {!r} as argument / macro value / variable value '
                 'printed {!r}'.format(text, outputs), case)
        return
    if text == '':
        return
    w = World([{'label': text, 'group': 'G', 'location': 'L'},
               {'label': text + 'x', 'group': 'G', 'location': 'L'}])
    result = w.run('hue 5 set "{}" define q_f "{}" on q_f'.format(text, text))
    commands = [(e[1], e[2]) for e in result.trace if e[0] == 'cmd']
    if (not result.compiled or result.aborted or
            commands != [(text, 'set_color'), (text, 'set_power')]):
        acc.fail('string-light-name' + suffix,
                 'set "{0}" / on <macro "{0}"> reached {1} ({2} {3})'.format(
                     text, commands, result.errors.strip()[:80],
                     result.aborted), case)


# ---- re-layout ------------------------------------------------------------------------------
SEPARATORS = [' ', ' ', ' ', '  ', '\t', '\n', ' \n', '\n\n  ', '\t \t']
comment_text = st.text(
    st.characters(blacklist_characters=LINE_BREAKS,
                  blacklist_categories=('Cs',)), max_size=12)


@st.composite
def layouts(draw, token_list):
    """Text for the token list with generated white space and comments."""
    tokens = [t for t in token_list if t[1] != 'stmt']
    out = []
    removed_space = False
    for index, (text, kind) in enumerate(tokens):
        out.append(text)
        if index + 1 == len(tokens):
            break
        nxt = tokens[index + 1]
        glue_ok = (kind == 'mark' or nxt[1] == 'mark') and not (
            kind == 'pat' and nxt[0] not in (']', ')', '}', '[', '{',
                                             '(')) \
            and not (text == '-' and nxt[0] == '-')
        choice = draw(st.integers(0, 9))
        if glue_ok and choice < 5:
            removed_space = True
            continue
        if choice == 9:
            # a comment needs no white space in front of it
            out.append(draw(st.sampled_from([' # ', '#', ' #'])) +
                       draw(comment_text) + '\n')
        else:
            out.append(SEPARATORS[draw(st.integers(0, len(SEPARATORS) - 1))])
    tail = draw(st.sampled_from(['', '\n', ' # end', '   ']))
    return ''.join(out) + tail, removed_space


def listing(text):
    from bardolph.parser.parse import Parser
    from bardolph.vm.instruction import Instruction
    world()
    parser = Parser()
    try:
        ok = parser.parse(text)
    except Exception as ex:
        return 'crash: {!r}'.format(ex)
    if not ok:
        return 'rejected: ' + parser.get_errors().strip()[:120]
    return Instruction.do_listing(parser.get_program())


PROFILE = gen.profile(max_top=7, max_block=3, max_depth=2, max_pop=3,
                      prelude_routines=2, w_print=5)


@st.composite
def relayout_cases(draw):
    case = draw(gen.programs(PROFILE))
    abbreviate = draw(st.booleans())
    bracket = draw(st.booleans())
    picks = draw(st.lists(st.booleans(), min_size=30, max_size=30))
    iterator = iter(picks)
    layout = printer.Layout(abbreviate=abbreviate, bracket_calls=bracket,
                            chooser=lambda: next(iterator, False))
    token_list = printer.tokens(case['program'], layout)
    text, removed = draw(layouts(token_list))
    return {'case': case, 'text': text, 'removed_space': removed,
            'abbreviate': abbreviate, 'bracket': bracket}


def check_relayout(acc, item):
    canonical = printer.to_text(item['case']['program'])
    want = listing(canonical)
    got = listing(item['text'])
    labels = ['relayout']
    if item['abbreviate']:
        labels.append('abbreviated')
    if item['bracket']:
        labels.append('bracketed-calls')
    if '#' in item['text']:
        labels.append('comments')
    acc.case(key=item['text'], nontrivial=item['removed_space'],
             labels=labels,
             sample={'canonical': canonical[:300], 'relayout': item['text'][:300]}
             if item['removed_space'] and len(acc.samples) < 4 else None)
    if want.startswith(('rejected', 'crash')):
        acc.fail('relayout:canonical-' + want.split(':')[0],
                 'canonical text does not compile: {}\n{}'.format(
                     want, canonical), {'kind': 'relayout', 'item': item})
    elif got != want:
        how = got.split(':')[0] if got.startswith(('rejected', 'crash')) \
            else 'different-program'
        acc.fail('relayout:' + how,
                 'a re-layout of the same tokens compiles differently ({})\n'
                 '--- canonical ---\n{}\n--- re-layout ---\n{}'.format(
                     got[:150] if how != 'different-program' else
                     'listing differs', canonical, item['text']),
                 {'kind': 'relayout', 'item': item})


def check_braces(acc, case):
    """{v} for v: same behaviour."""
    picks = itertools.cycle([True, False, True])
    plain = progcheck.run_case(case)
    if plain.status != 'ok':
        acc.discard('braces:' + plain.status)
        return
    from verif.harness import World
    w = World(case['population'])
    text = printer.to_text(case['program'], printer.Layout(
        brace_simple=True, chooser=lambda: next(picks)))
    result = w.run(text)
    got = progcheck.observable(result.trace) if result.compiled else None
    acc.case(key=text, nontrivial='{' in text, labels=['braces'])
    if got != plain.observed:
        acc.fail('braces:behaviour-differs',
                 'braces round single values change the behaviour ({})\n{}'
                 .format(result.errors.strip()[:100], text),
                 {'kind': 'braces', 'case': case})


# ---- values inside a light list ---------------------------------------------------------
LIST_POP = [{'label': 'A', 'group': 'G', 'location': 'L'},
            {'label': 'B', 'group': 'G', 'location': 'L'},
            {'label': 'C', 'group': 'H', 'location': 'L'}]
LIST_PRELUDE = ('assign a "A" assign b "B" assign c "C" assign g "G" '
                'define q_pick with q_n begin if {q_n == 1} return "A" '
                'if {q_n == 2} return "B" return "C" end ')
LIST_CASES = [      # (plain, written with braces / calls, expected visits)
    ('repeat in a and b and c as q_l print q_l',
     'repeat in {a} and {b} and {c} as q_l print q_l', ['A', 'B', 'C']),
    ('repeat in c and a as q_l print q_l',
     'repeat in {c} and a as q_l print q_l', ['C', 'A']),
    ('repeat in group g and c as q_l print q_l',
     'repeat in group {g} and {c} as q_l print q_l', ['A', 'B', 'C']),
    ('repeat in c and group g as q_l print q_l',
     'repeat in {c} and group {g} as q_l print q_l', ['C', 'A', 'B']),
    ('repeat in a and b and c as q_l print q_l',
     'repeat in [q_pick 1] and [q_pick 2] and [q_pick 3] as q_l print q_l',
     ['A', 'B', 'C']),
    ('repeat in b and a as q_l with q_i from 1 to 2 begin print q_l '
     'print q_i end',
     'repeat in {b} and {a} as q_l with q_i from 1 to 2 begin print q_l '
     'print q_i end', ['B', 1, 'A', 2]),
    # brackets round the call that is a routine's whole body
    ('define q_say with q_x println q_x define q_h q_say 5 q_h',
     'define q_say with q_x println q_x define q_h [q_say 5] q_h', [5]),
    # an opening bracket or brace needs no white space in front of it, also
    # after a time pattern
    ('define q_r begin println 1 end time at 8:00 [q_r]',
     'define q_r begin println 1 end time at 8:00[q_r]', [1]),
    ('define q_s with q_t q_x println q_x q_s 6:30 {1 + 2}',
     'define q_s with q_t q_x println q_x q_s 6:30{1 + 2}', [3]),
    # begin / end are optional round a one-command body, whatever the command
    ('define q_five begin return 5 end println [q_five]',
     'define q_five return 5 println [q_five]', [5]),
    ('define q_w begin wait end q_w println 2', 'define q_w wait q_w println 2',
     [2]),
    # braces round the single constant of a macro
    ('define q_m 5 println q_m', 'define q_m {5} println q_m', [5]),
    ('define q_m "A" on q_m println q_m', 'define q_m {"A"} on q_m println q_m',
     ['A']),
    # ... round a setting that is the count of a loop
    ('brightness 3 repeat brightness begin print 1 end println 0',
     'brightness 3 repeat {brightness} begin print 1 end println 0',
     [1, 1, 1, 0]),
    ('brightness 2 repeat B begin print 1 end println 0',
     'brightness 2 repeat {B} begin print 1 end println 0', [1, 1, 0]),
    ('hue 2 repeat hue with q_i from 1 to 2 print q_i println 0',
     'hue 2 repeat {hue} with q_i from 1 to 2 print q_i println 0',
     [1, 2, 0]),
    # ... and round a negative number, wherever a bare one can be written
    ('define q_m -5 println q_m', 'define q_m {-5} println q_m', [-5]),
    ('define q_m -2.5 println q_m', 'define q_m {-2.5} println q_m', [-2.5]),
    ('define q_m -5 hue q_m println hue',
     'define q_m {-5} hue {q_m} println hue', [-5]),
    ('define q_m 5 println -q_m', 'define q_m 5 println {-q_m}', [-5]),
    ('assign q_v -5 println q_v', 'assign q_v {-5} println q_v', [-5]),
    ('println -5', 'println {-5}', [-5]),
    ('print -5 println 0', 'print {-5} println 0', [-5, 0]),
    ('define q_f begin return -1 end println [q_f]',
     'define q_f begin return {-1} end println [q_f]', [-1]),
    ('define q_f with q_x println q_x q_f -3',
     'define q_f with q_x println q_x q_f {-3}', [-3]),
    ('hue -5 println hue', 'hue {-5} println hue', [-5]),
    ('repeat with q_i from -2 to -1 print q_i println 0',
     'repeat with q_i from {-2} to {-1} print q_i println 0', [-2, -1, 0]),
]


def check_list_values(acc):
    from verif.harness import World
    world = World(LIST_POP)
    for plain, written, expected in LIST_CASES:
        outs = []
        for text in (plain, written):
            del world.trace[:]
            result = world.run(LIST_PRELUDE + text, budget=20000)
            outs.append([e[1] for e in result.trace if e[0] == 'out']
                        if result.compiled and not result.aborted else
                        'did not run: {} {}'.format(result.errors.strip(),
                                                    result.aborted))
        acc.case(key=written, nontrivial=True, labels=['list-values'],
                 sample={'plain': plain, 'braced_or_called': written}
                 if len(acc.samples) < 2 else None)
        case = {'kind': 'list-values'}
        if outs[0] != expected:
            acc.fail('list-values:plain', '{} visited {} expected {}'.format(
                plain, outs[0], expected), case)
        elif outs[1] != expected:
            acc.fail('list-values:' + ('call' if '[' in written else 'braces')
                     + (':define' if written.startswith('define q_') and
                        'time' not in written and '6:30' not in written
                        else ':glued' if written.startswith('define') else ''),
                     '{} visited {}, the same list written plainly visits {}'
                     .format(written, outs[1], expected), case)


def plan(tier, seed_value):
    specs = [{'kind': 'list-values'}]
    names = fixed_identifiers()
    chunk = (len(names) + 15) // 16
    factor = 20 if tier == 'thorough' else 1
    for k in range(16):
        specs.append({'kind': 'identifiers', 'start': k * chunk,
                      'stop': min(len(names), (k + 1) * chunk)})
        specs.append({'kind': 'random-identifiers',
                      'seed': seed_value * 1000 + k, 'examples': 60 * factor})
        specs.append({'kind': 'strings', 'seed': seed_value * 1000 + k,
                      'examples': 150 * factor})
        specs.append({'kind': 'relayout', 'seed': seed_value * 1000 + k,
                      'examples': 250 * factor})
        specs.append({'kind': 'braces', 'seed': seed_value * 1000 + k,
                      'examples': 60 * factor})
    return specs


def run_shard(spec):
    acc = Acc()
    kind = spec['kind']
    avoid = runner.avoid_flags(ID)
    if kind == 'list-values':
        check_list_values(acc)
        return acc
    if kind == 'identifiers':
        for name in fixed_identifiers()[spec['start']:spec['stop']]:
            check_identifier(acc, name)
        acc.extra['identifiers_enumerated'] = spec['stop'] - spec['start']
        return acc
    strategy = {
        'random-identifiers': st.builds(
            lambda a, b: a + b, st.sampled_from(list(FIRST)),
            st.text(REST, min_size=2, max_size=7)).filter(usable),
        'strings': strings('trailing_backslash' not in avoid),
        'relayout': relayout_cases(),
        'braces': gen.programs(PROFILE),
    }[kind]
    function = {'random-identifiers': check_identifier,
                'strings': check_string, 'relayout': check_relayout,
                'braces': check_braces}[kind]

    @seed(spec['seed'])
    @progbase.hyp_settings(spec['examples'])
    @given(strategy)
    def run(value):
        function(acc, value)
    run()
    return acc


def replay(case):
    acc = Acc()
    kind = case['kind']
    if kind == 'list-values':
        check_list_values(acc)
    elif kind == 'identifier':
        check_identifier(acc, case['name'])
    elif kind == 'string':
        check_string(acc, case['text'])
    elif kind == 'relayout':
        check_relayout(acc, case['item'])
    else:
        check_braces(acc, case['case'])
    return [(f['sig'], f['what']) for f in acc.failures.values()]
