"""C02 - expressions follow the documented precedence, associativity and
arithmetic; built-ins return their documented results."""
import math
import random as py_random

from hypothesis import given, seed, strategies as st

from verif import env, progcheck
from verif.checks import progbase
from verif.lang import printer, ref
from verif.runner import Acc

ID = 'C02'
LEVEL = 'exploration'
RULE = (
    'Hypothesis builds typed expression trees (numeric sub-trees under + - * '
    '/ % ^ and unary minus; truth-valued sub-trees under comparisons, and, '
    'or; numbers allowed in logical positions) of depth <= 6 over literals, '
    'variables, macros, registers and calls, prints them with minimal or '
    'randomly redundant parentheses, evaluates them with an independent '
    'evaluator and embeds the SAME text in every value position it is legal '
    'for: assign, print, register, routine argument, return, if, while, loop '
    'count, from/to bounds (both loop forms), cycle start, zone, row, column, '
    'printf argument. The production run must agree with the reference in '
    'every position. Built-ins are swept over argument grids against '
    'math.*; [random a b] is drawn 300 times per range (b-a <= 6) and must '
    'yield exactly the integers a..b. Whole-number literals that no float '
    'can hold (2^53+1 .. 10^40) must keep their exact value as operand, '
    'macro, variable and argument (modulus, difference from and equality '
    'with the neighbouring number, sum). Non-trivial = the tree has >= 2 binary '
    'operators and its value differs from the strict left-to-right or the '
    'strict right-to-left evaluation of its operator/operand sequence (so '
    'precedence or associativity matters). Distinct by expression text.')
ASSUMPTIONS = [
    '-a^b without parentheses, % with negative operands, sqrt of negatives, '
    'round() ties beyond the documented examples are not asserted.',
    'Python int/float arithmetic is the "ordinary arithmetic" of the manual; '
    'results compared with relative tolerance 1e-9.',
]

CLASS = {'^': 'pow', '*': 'mul', '/': 'mul', '%': 'mul', '+': 'add',
         '-': 'add', '<': 'cmp', '<=': 'cmp', '>': 'cmp', '>=': 'cmp',
         '==': 'cmp', '!=': 'cmp', 'and': 'and', 'or': 'or'}
CLASSES = ('pow', 'mul', 'add', 'cmp', 'and', 'or')
REQUIRED_PAIRS = [(a, b) for a in CLASSES for b in CLASSES
                  if (a, b) != ('cmp', 'cmp')]
MIN_LABELS = {'quick': {'pair:{}>{}'.format(a, b): 20
                        for a, b in REQUIRED_PAIRS}}

POP = [
    {'label': 'A', 'group': 'G1', 'location': 'L1', 'kind': 'plain',
     'color': [0, 0, 0, 3500], 'power': 0},
    {'label': 'Z', 'group': 'G1', 'location': 'L1', 'kind': 'mz', 'zones': 16,
     'color': [0, 0, 0, 3500], 'power': 0},
    {'label': 'M', 'group': 'G2', 'location': 'L1', 'kind': 'matrix',
     'height': 8, 'width': 8, 'color': [0, 0, 0, 3500], 'power': 0},
]

# Fixed context every expression is evaluated in.
PRELUDE = [
    ['assign', 'a', ['num', '3']],
    ['assign', 'b', ['num', '2.5']],
    ['assign', 'c', ['num', '0']],
    ['assign', 'x', ['num', '7']],
    ['define', 'M1', ['num', '4']],
    ['define', 'M2', ['num', '1.5']],
    ['setreg', 'hue', ['num', '6']],
    ['setreg', 'saturation', ['num', '2']],
    ['setreg', 'brightness', ['num', '0.5']],
    ['setreg', 'duration', ['num', '1']],
    ['routine', 'f1', ['p'], [['return', ['bin', '*', ['var', 'p'],
                                          ['num', '2']]]]],
    ['routine', 'f2', ['p', 'q'], [['return', ['bin', '-', ['var', 'p'],
                                               ['var', 'q']]]]],
    # a function that returns out of a loop nested in a light-list loop with
    # names still to visit: nothing of those loops may reach the expression
    # the call is an operand of
    ['routine', 'f3', ['p'], [
        ['repeat', ['list', [['light', ['str', 'A']], ['light', ['str', 'M']],
                             ['light', ['str', 'Z']]], 'lt1', None],
         [['repeat', ['count', ['num', '2']],
           [['return', ['bin', '+', ['var', 'p'], ['num', '1']]]]]]]]],
    # a macro defined AFTER the routines, named like one of their parameters:
    # inside f2 the name still means the parameter
    ['define', 'q', ['num', '40']],
]


# ---- expression strategies ------------------------------------------------------
def leaf(draw):
    kind = draw(st.sampled_from(
        ['int', 'int', 'int', 'float', 'var', 'var', 'macro', 'reg']))
    if kind == 'int':
        return ['num', str(draw(st.integers(0, 9)))]
    if kind == 'float':
        return ['num', draw(st.sampled_from(
            ['0.5', '1.5', '2.25', '0.25', '3.0', '10.5']))]
    if kind == 'var':
        return ['var', draw(st.sampled_from(['a', 'b', 'c', 'x']))]
    if kind == 'macro':
        return ['macro', draw(st.sampled_from(['M1', 'M2']))]
    return ['reg', draw(st.sampled_from(
        ['hue', 'saturation', 'brightness', 'duration']))]


def numeric(draw, depth):
    if depth <= 0 or draw(st.integers(0, 4)) == 0:
        return leaf(draw)
    kind = draw(st.sampled_from(
        ['bin'] * 7 + ['neg', 'call1', 'call2', 'call3', 'builtin']))
    if kind == 'bin':
        op = draw(st.sampled_from(
            ['+', '+', '-', '-', '*', '*', '/', '%', '^', '^']))
        left = numeric(draw, depth - 1)
        right = numeric(draw, depth - 1)
        if op == '^':
            right = draw(st.sampled_from([
                ['num', str(draw(st.integers(0, 3)))],
                ['bin', '^', ['num', str(draw(st.integers(0, 3)))],
                 ['num', str(draw(st.integers(0, 2)))]],
                ['bin', '+', ['num', '1'], ['num', str(draw(
                    st.integers(0, 1)))]]]))
            if draw(st.booleans()):
                left = ['num', str(draw(st.integers(0, 4)))]
        return ['bin', op, left, right]
    if kind == 'neg':
        return ['neg', numeric(draw, depth - 1)]
    if kind == 'call1':
        return ['call', 'f1', [numeric(draw, depth - 1)]]
    if kind == 'call3':
        return ['call', 'f3', [numeric(draw, depth - 1)]]
    if kind == 'call2':
        return ['call', 'f2', [numeric(draw, depth - 1),
                               numeric(draw, depth - 1)]]
    name = draw(st.sampled_from(
        ['floor', 'ceil', 'trunc', 'round', 'sqrt', 'cycle', 'sin', 'cos']))
    arg = numeric(draw, depth - 1)
    if name == 'sqrt':
        arg = ['bin', '*', arg, arg]
    return ['call', name, [arg]]


def truthy(draw, depth):
    kind = draw(st.sampled_from(['cmp'] * 4 + ['and', 'and', 'or', 'or',
                                               'num']))
    if depth <= 0:
        kind = draw(st.sampled_from(['cmp', 'num']))
    if kind == 'cmp':
        op = draw(st.sampled_from(['<', '<=', '>', '>=', '==', '!=']))
        return ['bin', op, numeric(draw, min(depth - 1, 2)),
                numeric(draw, min(depth - 1, 2))]
    if kind == 'num':
        return numeric(draw, min(depth, 2))
    return ['bin', kind, truthy(draw, depth - 1), truthy(draw, depth - 1)]


@st.composite
def expressions(draw):
    want_truth = draw(st.booleans())
    depth = draw(st.integers(1, 6))
    tree = truthy(draw, min(depth, 4)) if want_truth else numeric(draw, depth)
    redundant = draw(st.integers(0, 3)) == 0
    choices = draw(st.lists(st.booleans(), min_size=40, max_size=40)) \
        if redundant else []
    return {'tree': tree, 'redundant': redundant, 'choices': choices}


# ---- analysis --------------------------------------------------------------------
def flatten(tree, ops, operands):
    """In-order operator / operand sequence of the binary skeleton."""
    if tree[0] == 'bin':
        flatten(tree[2], ops, operands)
        ops.append(tree[1])
        flatten(tree[3], ops, operands)
    else:
        operands.append(tree)


def _binop_values(op, a, b):
    if op == 'and':
        return bool(a) and bool(b)
    if op == 'or':
        return bool(a) or bool(b)
    if op == '^' and (abs(b) > 64 or abs(a) > 1e6):
        # a wrong grouping can ask for an astronomically large power; it is
        # enough to know that it does not give the right value
        raise OverflowError('power too large to be worth computing')
    table = {'+': lambda: a + b, '-': lambda: a - b, '*': lambda: a * b,
             '/': lambda: a / b, '%': lambda: a % b, '^': lambda: a ** b,
             '<': lambda: a < b, '<=': lambda: a <= b, '>': lambda: a > b,
             '>=': lambda: a >= b, '==': lambda: a == b, '!=': lambda: a != b}
    return table[op]()


def order_matters(tree, value, evaluator):
    ops, operands = [], []
    flatten(tree, ops, operands)
    if len(ops) < 2:
        return False, ops
    try:
        values = [evaluator(o) for o in operands]
    except ref.Undefined:
        return False, ops
    differs = False
    for direction in ('ltr', 'rtl'):
        try:
            if direction == 'ltr':
                acc = values[0]
                for op, v in zip(ops, values[1:]):
                    acc = _binop_values(op, acc, v)
            else:
                acc = values[-1]
                for op, v in zip(reversed(ops), reversed(values[:-1])):
                    acc = _binop_values(op, v, acc)
            same = (acc == value) or (
                isinstance(acc, (int, float)) and
                isinstance(value, (int, float)) and
                abs(acc - value) <= 1e-9 * max(1, abs(acc)))
        except Exception:
            same = False
        if not same:
            differs = True
    return differs, ops


def build_program(tree, value):
    """The prelude plus one block per value position the value is legal for.
    Each block starts with a marker line so a mismatch names the position."""
    E = tree
    body = [list(s) for s in PRELUDE]
    positions = []

    def block(name, statements):
        positions.append(name)
        body.append(['println', ['str', 'P:' + name]])
        body.extend(statements)

    numeric_value = isinstance(value, (int, float)) and not isinstance(
        value, bool)
    block('assign', [['assign', 'r', E], ['println', ['var', 'r']]])
    block('print', [['println', E]])
    block('argument', [['println', ['call', 'f1', [E]]]]
          if numeric_value else
          [['routine', 'g1', ['p'], [['println', ['var', 'p']]]],
           ['call', 'g1', [E]]])
    block('return', [['routine', 'g2', [], [['return', E]]],
                     ['println', ['call', 'g2', []]]])
    block('printf', [['printf', ['str', 'v {} {}'], [E, E]]])
    block('if', [['if', E, [['println', ['num', '1']]],
                  [['println', ['num', '0']]]]])
    block('while', [
        ['assign', 'w', ['num', '0']],
        ['repeat', ['while', E], [
            ['assign', 'w', ['bin', '+', ['var', 'w'], ['num', '1']]],
            ['println', ['var', 'w']],
            ['if', ['bin', '>=', ['var', 'w'], ['num', '2']], [['break']],
             None]]]])
    if numeric_value:
        block('register', [['setreg', 'kelvin', E],
                           ['println', ['reg', 'kelvin']],
                           ['setreg', 'time', E], ['println', ['reg', 'time']],
                           ['setreg', 'time', ['num', '0']]])
        block('interp-bounds', [
            ['repeat', ['interp', ['num', '3'], 'r', E, ['num', '10']],
             [['println', ['var', 'r']]]],
            ['repeat', ['interp', ['num', '2'], 'r', ['num', '1'], E],
             [['println', ['var', 'r']]]]])
        block('cycle-start', [
            ['repeat', ['cycle', ['num', '2'], 'r', E],
             [['println', ['var', 'r']]]]])
        integral = float(value).is_integer() and not isinstance(
            value, ref.Noisy)
        if integral and 0 <= value <= 12:
            block('count', [['repeat', ['count', E],
                             [['print', ['num', '7']]]],
                            ['println', ['num', '8']],
                            ['repeat', ['interp', E, 'r', ['num', '0'],
                                        ['num', '1']],
                             [['println', ['var', 'r']]]]])
        if integral and -4 <= value <= 9:
            block('range-bounds', [
                ['repeat', ['range', 'r', E, ['num', '3']],
                 [['println', ['var', 'r']]]],
                ['repeat', ['range', 'r', ['num', '2'], E],
                 [['println', ['var', 'r']]]]])
        if integral and 0 <= value <= 9:
            # the loop variable is one of the expression's own operands: the
            # bound is worked out before the variable gets its first value
            block('bound-mentions-loop-variable', [
                ['repeat', ['range', 'a', ['num', '0'], E],
                 [['println', ['var', 'a']]]],
                ['assign', 'a', ['num', '3']],
                ['repeat', ['range', 'x', E, ['num', '9']],
                 [['println', ['var', 'x']]]],
                ['assign', 'x', ['num', '7']]])
        if integral and 0 <= value <= 7:
            v = int(value)
            block('zone-row-column', [
                ['action', 'set', [['zone', ['str', 'Z'], E, None]]],
                ['action', 'set', [['zone', ['str', 'Z'], ['num', '0'], E]]],
                ['action', 'set', [['matrix_inline', ['str', 'M'],
                                    [E, None], [['num', '0'], E], 'rc']]],
                ['action', 'set', [['matrix_block', ['str', 'M'],
                                    [['stage', [['num', str(v)], E],
                                      [E, None], 'cr']]]]]])
    return body, positions


def position_of(expected, index):
    name = 'prelude'
    for event in expected[:index + 1]:
        if event[0] == 'out' and isinstance(event[1], str) and \
                event[1].startswith('P:'):
            name = event[1][2:]
    return name


def check_expression(acc, case):
    tree = case['tree']
    interp = ref.Interp(POP)
    try:
        interp.run([list(s) for s in PRELUDE])
        value = interp.eval(tree)
    except ref.Undefined as ex:
        acc.discard(str(ex)[:40])
        return
    except ref.Budget:
        acc.discard('budget')
        return
    picks = iter(case['choices'])
    layout = printer.Layout(
        redundant_parens=case['redundant'],
        chooser=(lambda: next(picks, False)))
    text_tokens = printer.Printer(layout)
    text_tokens.expr(tree, 0)
    expr_text = ' '.join(t for t, _ in text_tokens.out)
    matters, ops = order_matters(tree, value, interp.eval)
    labels = ['truth' if isinstance(value, bool) else 'number']
    classes = [CLASS[o] for o in ops]
    # adjacency in the printed token string: only operators with no
    # parenthesis between them are adjacent; approximate by tree adjacency.
    for pair in adjacent_pairs(tree):
        labels.append('pair:{}>{}'.format(*pair))
    program, positions = build_program(tree, value)
    labels += ['position:' + p for p in positions]
    picks = iter(case['choices'])
    outcome = progcheck.run_case(
        {'program': program, 'population': POP}, layout=printer.Layout(
            redundant_parens=case['redundant'],
            chooser=(lambda: next(picks, False))))
    if outcome.status == 'discard':
        acc.discard(outcome.why[:40])
        return
    acc.case(key=expr_text, nontrivial=matters, labels=labels,
             sample={'expression': expr_text, 'value': repr(value),
                     'positions': positions}
             if matters and acc.evaluations % 499 == 0 else None)
    if outcome.status == 'fail':
        where = 'compile'
        if outcome.expected is not None and outcome.sig.startswith('trace'):
            diff = ref.compare(outcome.expected, outcome.observed)
            where = position_of(outcome.expected, diff[0]) if diff else '?'
        acc.fail('{}@{}'.format(outcome.sig.split(' abort')[0][:40], where),
                 '{{ {} }} (= {!r}) in position {}: {}'.format(
                     expr_text, value, where, outcome.what.split(
                         '--- script')[0]),
                 {'kind': 'expr', 'case': case, 'text': expr_text})


def adjacent_pairs(tree):
    """(left class, right class) for operators that end up next to each other
    without parentheses when the tree is printed minimally."""
    pairs = set()

    def walk(node):
        if node[0] != 'bin':
            if node[0] in ('neg', 'paren'):
                walk(node[1])
            elif node[0] == 'call':
                for arg in node[2]:
                    walk(arg)
            return
        op = node[1]
        prec = printer.PREC[op]
        left, right = node[2], node[3]
        if left[0] == 'bin':
            need = printer.PREC[left[1]] < (prec + 1 if op in printer.RIGHT
                                            else prec)
            if not need:
                pairs.add((CLASS[rightmost_op(left)], CLASS[op]))
        if right[0] == 'bin':
            need = printer.PREC[right[1]] < (prec if op in printer.RIGHT
                                             else prec + 1)
            if not need:
                pairs.add((CLASS[op], CLASS[leftmost_op(right)]))
        walk(left)
        walk(right)
    walk(tree)
    return pairs


def rightmost_op(node):
    while node[3][0] == 'bin' and printer.PREC[node[3][1]] >= (
            printer.PREC[node[1]] if node[1] in printer.RIGHT
            else printer.PREC[node[1]] + 1):
        node = node[3]
    return node[1]


def leftmost_op(node):
    while node[2][0] == 'bin' and printer.PREC[node[2][1]] >= (
            printer.PREC[node[1]] + 1 if node[1] in printer.RIGHT
            else printer.PREC[node[1]]):
        node = node[2]
    return node[1]


# ---- built-ins -----------------------------------------------------------------
GRID = [-720, -361, -360, -180.5, -90, -10, -2.5, -1.6, -1.5, -1.01, -1, -0.5,
        -0.25, 0, 0.25, 0.5, 0.866, 1, 1.0, 1.01, 1.1, 1.5, 2, 2.1, 2.5, 4, 9,
        10.75, 30, 45, 60, 89, 90, 179.5, 180, 270, 355, 359.99, 360, 365, 400,
        720, 3607, 12345.678,
        # so close to a whole turn that the remainder rounds to the turn
        -0.00000000000000000001, -0.0000000000000001]
FUNCTIONS = {
    'floor': math.floor, 'ceil': math.ceil, 'trunc': math.trunc,
    'round': None, 'sqrt': None,
    'sin': lambda x: math.sin(math.radians(x)),
    'cos': lambda x: math.cos(math.radians(x)),
    'tan': lambda x: math.tan(math.radians(x)),
    'asin': lambda x: math.degrees(math.asin(x)),
    'acos': lambda x: math.degrees(math.acos(x)),
    'atan': lambda x: math.degrees(math.atan(x)),
    'cycle': lambda x: x % 360,
}


def builtin_expected(name, x):
    if name == 'round':
        if abs(x - math.floor(x) - 0.5) < 1e-12 and x not in (1.5, -1.5):
            return None
        return -2 if x == -1.5 else math.floor(x + 0.5)
    if name == 'sqrt':
        return None if x < 0 else math.sqrt(x)
    if name in ('asin', 'acos') and not -1 <= x <= 1:
        return None
    if name == 'tan' and abs(math.cos(math.radians(x))) < 1e-9:
        return None
    return FUNCTIONS[name](x)


def lit(x):
    text = repr(x)
    if 'e' in text:     # the lexer has no exponent notation
        text = '{:.30f}'.format(x).rstrip('0')
    if text.startswith('-'):
        return ['neg', ['num', text[1:]]]
    return ['num', text]


def builtin_parameter_names():
    """The names the built-ins declare for their own parameters."""
    import bardolph.runtime.bardolph_math as bmath
    from bardolph.runtime import bardolph_fn
    names = set()
    for obj in vars(bmath).values():
        fn = getattr(obj, '__wrapped__', None)
        if fn is not None and bardolph_fn.is_builtin(fn):
            names.update(bardolph_fn.params(fn))
    return sorted(names)


def run_builtins(acc):
    from verif.harness import World
    world = World(POP)
    # second pass: the script has macros and variables named like the
    # built-ins' own parameters; a call's arguments still are what counts
    collide = builtin_parameter_names()
    if len(collide) < 2:
        raise env.HarnessError('built-in parameter names not found')
    environments = [('plain', []),
                    ('macros', ['define {} 9'.format(n) for n in collide]),
                    ('variables', ['assign {} 9'.format(n) for n in collide])]
    for env_name, header in environments:
        _run_builtins_in(acc, world, env_name, header)


def _run_builtins_in(acc, world, env_name, header):
    for name in sorted(FUNCTIONS):
        lines, wanted = list(header), []
        for x in GRID:
            want = builtin_expected(name, x)
            if want is None:
                continue
            node = lit(x)
            text = printer.to_text([['println', ['call', name, [node]]]])
            lines.append(text)
            wanted.append((x, want, text))
        del world.trace[:]
        result = world.run('\n'.join(lines))
        outs = [e[1] for e in result.trace if e[0] == 'out']
        case = {'kind': 'builtin', 'name': name}
        if not result.compiled or result.aborted or len(outs) != len(wanted):
            acc.fail('builtin-run:' + name, '{} ({}): {} {}'.format(
                name, env_name, result.errors, result.aborted), case)
            acc.case(key='builtin:' + name, labels=('builtin:' + name,))
            continue
        for (x, want, text), got in zip(wanted, outs):
            ok = isinstance(got, (int, float)) and abs(got - want) <= 1e-9 * \
                max(1.0, abs(want))
            if name == 'cycle':
                # "normalizes an angle such that the result is between 0 and
                # 360", [cycle 360] being 0: a full turn is never a result
                ok = isinstance(got, (int, float)) and 0 <= got < 360 and (
                    abs(got - want) <= 1e-9 or abs(abs(got - want) - 360)
                    <= 1e-9)
            if name in ('floor', 'ceil', 'trunc', 'round'):
                ok = ok and float(got).is_integer()
            acc.case(key='builtin:{}:{}:{}'.format(name, x, env_name),
                     nontrivial=True,
                     labels=('builtin:' + name, 'builtins-among-' + env_name),
                     sample={'call': text, 'expected': want, 'got': got}
                     if x == 1.5 else None)
            if not ok:
                acc.fail('builtin:' + name,
                         '{} returned {!r}, documented result {!r} ({})'
                         .format(text, got, want,
                                 ' '.join(header) or 'no other definitions'),
                         case)


def run_random(acc, seed_value, ranges):
    from verif.harness import World
    py_random.seed(seed_value)
    import bardolph.runtime.bardolph_math as bmath
    bmath.py_random.seed(seed_value)
    world = World(POP)
    for low, high in ranges:
        def num(v):
            return ['neg', ['num', str(-v)]] if v < 0 else ['num', str(v)]
        program = [['repeat', ['count', ['num', '300']],
                    [['print', ['call', 'random', [num(low), num(high)]]]]]]
        text = printer.to_text(program)
        if isinstance(low, float) or isinstance(high, float):
            # arguments that are not whole-number literals: a quotient, a
            # register (registers hold floats), a fraction
            text = ('hue {1} repeat 300 print [random {0} hue]'.format(
                low, high) if high >= 0 else
                'repeat 300 print [random {{{0} * 1}} {{{1} / 1}}]'.format(
                    low, high))
            low, high = math.ceil(low), math.floor(high)
        del world.trace[:]
        result = world.run(text)
        outs = [e[1] for e in result.trace if e[0] == 'out']
        case = {'kind': 'random', 'low': low, 'high': high,
                'seed': seed_value}
        acc.case(key='random:{}:{}'.format(low, high), nontrivial=True,
                 labels=('random',),
                 sample={'script': text, 'distinct results': sorted(set(outs))}
                 if (low, high) == (1, 3) else None)
        if not result.compiled or result.aborted or len(outs) != 300:
            acc.fail('random-run', '{!r}: {} {}'.format(
                text, result.errors, result.aborted), case)
            continue
        bad = [v for v in outs if not (isinstance(v, int) and not isinstance(
            v, bool) and low <= v <= high)]
        if bad:
            acc.fail('random-out-of-range',
                     '[random {} {}] returned {!r}'.format(low, high, bad[0]),
                     case)
        elif set(outs) != set(range(low, high + 1)):
            acc.fail('random-never-returns',
                     '[random {} {}] never returned {} in 300 draws'.format(
                         low, high, sorted(set(range(low, high + 1)) -
                                           set(outs))), case)


def plan(tier, seed_value):
    specs = progbase.plan(ID, tier, seed_value, quick=6400, thorough=240000,
                          extra={'kind': 'expr'})
    specs.append({'kind': 'builtins'})
    specs.append({'kind': 'big-literals', 'seed': seed_value,
                  'examples': 3000 if tier == 'thorough' else 150})
    ranges = [(a, a + d) for a in (-3, 0, 1, 10) for d in range(0, 7)]
    ranges += [(1, 3.0), (0.5, 3.5), (-2.0, 1.0), (2, 2.75), (-4.5, -2.0),
               (0.0, 6.0), (1.25, 2.5), (-3, -1.5)]
    for k in range(4):
        specs.append({'kind': 'random', 'seed': seed_value * 1000 + k,
                      'ranges': ranges[k::4]})
    return specs


# ---- whole-number literals are exact, however long ---------------------------------------
def check_big_literal(acc, n, m, position):
    """n: a whole number no float can hold; m: a small modulus."""
    from verif.harness import shared_world
    world = shared_world('c02-big', POP)
    forms = {
        'modulo': ('println {{ {n} % {m} }}', n % m),
        'difference': ('println {{ {n} - {p} }}', 1),
        'equal-to-neighbour': ('println {{ {n} == {p} }}', False),
        'macro': ('define q_big {n} println {{ q_big % {m} }}', n % m),
        'variable': ('assign q_v {n} println {{ q_v % {m} }}', n % m),
        'argument': ('println [f1 {n}]', n * 2),
        'sum': ('println {{ {n} + {m} }}', n + m),
    }
    template, want = forms[position]
    text = printer.to_text(PRELUDE) + '\n' + template.format(
        n=n, m=m, p=n - 1)
    del world.trace[:]
    result = world.run(text)
    outs = [e[1] for e in result.trace if e[0] == 'out']
    acc.case(key=(n, m, position), nontrivial=True,
             labels=['big-literal', 'big:' + position],
             sample={'text': template.format(n=n, m=m, p=n - 1), 'want': want}
             if len(acc.samples) < 2 else None)
    case = {'kind': 'big-literal', 'n': str(n), 'm': m, 'position': position}
    if not result.compiled or result.aborted or len(outs) != 1:
        acc.fail('big-literal:did-not-run', '{} did not run: {} {}'.format(
            template.format(n=n, m=m, p=n - 1), result.errors.strip()
            if not result.compiled else '', result.aborted), case)
    elif outs[0] != want or isinstance(outs[0], bool) != isinstance(
            want, bool):
        acc.fail('big-literal:' + position,
                 '{} printed {!r}, the arithmetic value is {!r}'.format(
                     template.format(n=n, m=m, p=n - 1), outs[0], want), case)


def run_shard(spec):
    acc = Acc()
    if spec['kind'] == 'big-literals':
        @seed(spec['seed'])
        @progbase.hyp_settings(spec['examples'])
        @given(st.integers(2 ** 53 + 1, 10 ** 40), st.integers(2, 1000),
               st.sampled_from(['modulo', 'difference', 'equal-to-neighbour',
                                'macro', 'variable', 'argument', 'sum']))
        def run_big(n, m, position):
            check_big_literal(acc, n, m, position)
        run_big()
    elif spec['kind'] == 'builtins':
        run_builtins(acc)
    elif spec['kind'] == 'random':
        run_random(acc, spec['seed'], [tuple(r) for r in spec['ranges']])
    else:
        @seed(spec['seed'])
        @progbase.hyp_settings(spec['examples'])
        @given(expressions())
        def run(case):
            check_expression(acc, case)
        run()
    return acc


def replay(case):
    acc = Acc()
    if case['kind'] == 'builtin':
        run_builtins(acc)
    elif case['kind'] == 'big-literal':
        check_big_literal(acc, int(case['n']), case['m'], case['position'])
    elif case['kind'] == 'random':
        run_random(acc, case['seed'], [(case['low'], case['high'])])
    else:
        check_expression(acc, case['case'])
    return [(f['sig'], f['what']) for f in acc.failures.values()]
