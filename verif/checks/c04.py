"""C04 - every repeat form runs the documented number of times with the
documented values."""
from verif.checks import progbase

ID = 'C04'
LEVEL = 'exploration'
RULE = (
    'Hypothesis generates loop-dominated programs: every repeat form (count, '
    'with-from-to, count-with-from-to, cycle with/without start in all unit '
    'modes, while, infinite with break, all / group / location / in-lists '
    'mixing lights, groups, locations, unknown names and duplicates) with '
    'counts 0..5 as literal / variable / expression, bounds in either '
    'direction, nesting up to 4, break at arbitrary positions, loops inside '
    'routines, counts modified in the body, over populations of 0..8 lights; '
    'each light iteration sends a command to the bound light and prints the '
    'accompanying range value. The trace must equal the reference '
    'interpreter\'s (docs/language.rst "Repeat Loops"). Non-trivial = the run '
    'executed a loop with count 0 or 1 with interpolation / cycle, or took a '
    'break inside a nested loop, or iterated a light list with >= 2 sources, '
    'or iterated over zero lights. Distinct by script text + population.')
ASSUMPTIONS = [
    'Raw-mode `cycle`: a full turn of 65535 or of 65536 are both accepted.',
    'Loop variables are not read after their loop; loop counts are '
    'non-negative integers.',
]
PROFILE = {
    'w_repeat': 16, 'w_if': 4, 'w_break': 6, 'w_action': 4, 'w_print': 4,
    'w_assign': 4, 'w_call': 4, 'w_routine': 2, 'w_setreg': 2, 'w_get': 0,
    'w_timeat': 0, 'w_units': 1, 'w_matrix': 0, 'w_zone': 0, 'w_wait': 0,
    'w_time': 0, 'w_define': 1, 'max_depth': 4, 'max_top': 8, 'max_block': 3,
    'max_pop': 8, 'prelude_routines': 1,
}
MIN_LABELS = {'quick': {'nested-loop': 1000, 'break-taken': 500,
                        'list-multi-source': 200, 'iter-count:0': 100,
                        'interp-count:0': 30, 'interp-count:1': 30,
                        'cycle-count:0': 30, 'cycle-count:1': 30}}


def nontrivial(outcome, case):
    labels = outcome.labels
    return (any(l in labels for l in (
        'interp-count:0', 'interp-count:1', 'cycle-count:0', 'cycle-count:1',
        'list-multi-source', 'iter-count:0')) or
        ('break-taken' in labels and 'nested-loop' in labels))


def plan(tier, seed_value):
    return progbase.plan(ID, tier, seed_value, quick=4000, thorough=200000)


def run_shard(spec):
    return progbase.run_shard(spec, ID, PROFILE, nontrivial)


def replay(case):
    return progbase.replay(case, ID, nontrivial)


def shrink(failure):
    return progbase.shrink(failure, ID, nontrivial)
