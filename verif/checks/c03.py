"""C03 - parameters are by-value locals hiding globals; return from any depth."""
from hypothesis import given, seed, strategies as st

from verif.checks import progbase
from verif.runner import Acc

ID = 'C03'
LEVEL = 'exploration'
RULE = (
    'Hypothesis generates programs dominated by routines: 1..4 routines with '
    '0..4 parameters whose names come from the same six letters as the '
    'globals, bodies with assignments to parameters, globals and fresh locals '
    'inside if/repeat at depth 0..3, nested and recursive calls (guarded by a '
    'decreasing argument), calls as statement, bracketed, argument of another '
    'call and expression operand, from top level and from inside routines, '
    '`return` / `return v` at any nesting depth; every readable variable is '
    'printed after each call. The observable trace of the production VM must '
    'equal that of the reference interpreter implementing the documented '
    'scope rules. Non-trivial = the run contains at least one of: a parameter '
    'named like a live global; assignment inside a loop inside a routine; a '
    'return from inside a loop; a call made from inside a routine; recursion. '
    'Distinct by script text + population.')
ASSUMPTIONS = [
    'Scope rules as in DESIGN.md Appendix A (docs/language.rst, "Routine '
    'Definitions" and "Variables").',
    'In the generated programs macros never share a name with a variable or '
    'parameter (the collision templates cover that); the value of a loop '
    'variable after its loop is never read.',
]
PROFILE = {
    'w_call': 14, 'w_assign': 10, 'w_routine': 4, 'w_return': 5, 'w_print': 4,
    'w_action': 2, 'w_setreg': 2, 'w_get': 0, 'w_timeat': 0, 'w_units': 0,
    'w_matrix': 0, 'w_zone': 0, 'w_wait': 0, 'w_time': 0, 'w_define': 1,
    'dump_after_call': True, 'light_loops': True, 'max_top': 10,
    'prelude_routines': 4, 'max_pop': 3,
}
MIN_LABELS = {'quick': {'return-in-loop': 150, 'assign-in-loop-in-routine': 300,
                        'call-from-routine': 500, 'param-hides-global': 300,
                        'recursion': 100}}


def _param_hides_global(program):
    assigned = set()
    for s in program:
        if s[0] == 'assign':
            assigned.add(s[1])
        elif s[0] == 'routine' and assigned & set(s[2]):
            return True
    return False


def _recursive(program):
    def mentions(node, name):
        if isinstance(node, list):
            if len(node) >= 2 and node[0] == 'call' and node[1] == name:
                return True
            return any(mentions(child, name) for child in node)
        return False
    return any(s[0] == 'routine' and mentions(s[3], s[1]) for s in program)


def nontrivial(outcome, case):
    labels = outcome.labels
    if _param_hides_global(case['program']):
        labels.add('param-hides-global')
    if _recursive(case['program']):
        labels.add('recursion')
    return ('stmt:call' in labels or 'call-from-routine' in labels) and any(
        l in labels for l in ('param-hides-global', 'return-in-loop',
                              'assign-in-loop-in-routine', 'call-from-routine',
                              'recursion'))


def plan(tier, seed_value):
    specs = progbase.plan(ID, tier, seed_value, quick=4000, thorough=200000)
    for k in range(4):
        specs.append({'kind': 'collisions', 'seed': seed_value * 1000 + k,
                      'examples': 2000 if tier == 'thorough' else 250})
    return specs


def run_shard(spec):
    if spec.get('kind') == 'collisions':
        acc = Acc()

        @seed(spec['seed'])
        @progbase.hyp_settings(spec['examples'])
        @given(collisions())
        def run(case):
            check_collision(acc, case)
        run()
        return acc
    return progbase.run_shard(spec, ID, PROFILE, nontrivial)


def replay(case):
    if case.get('kind') == 'collision':
        acc = Acc()
        check_collision(acc, case)
        return [(f['sig'], f['what']) for f in acc.failures.values()]
    return progbase.replay(case, ID, nontrivial)


def shrink(failure):
    if failure['case'].get('kind') == 'collision':
        return failure
    return progbase.shrink(failure, ID, nontrivial)


# ---- a global of any kind named like something private to a routine -------------------
@st.composite
def collisions(draw):
    return {
        'kind': 'collision',
        'name': draw(st.sampled_from(['n', 'x', 'limit', 'i', 'lamp'])),
        'outer': draw(st.sampled_from(['macro-before', 'macro-after',
                                       'variable-before'])),
        'role': draw(st.sampled_from(['parameter', 'parameter-assigned',
                                      'local', 'loop-index', 'cycle-index',
                                      'as-variable',
                                      'parameter-given-nothing',
                                      'unassigned-local-of-callee'])),
        'outer_value': draw(st.integers(50, 99)),
        'argument': draw(st.integers(1, 9)),
        'delta': draw(st.integers(1, 5)),
    }


NOTHING = '<no value>'      # an expected output that must be None


def collision_script(case):
    """(text, expected printed values)"""
    name, role = case['name'], case['role']
    outer, arg, delta = case['outer_value'], case['argument'], case['delta']
    if role == 'parameter':
        routine = 'define q_f with {0} begin println {0} return {{{0} * 2}} ' \
            'end'.format(name)
        inside = [arg, arg * 2]
    elif role == 'parameter-assigned':
        routine = 'define q_f with {0} begin assign {0} {{{0} + {1}}} ' \
            'println {0} return {0} end'.format(name, delta)
        inside = [arg + delta, arg + delta]
    elif role == 'parameter-given-nothing':
        # the argument is a call that returns nothing: still a parameter
        routine = 'define q_none begin return end define q_f with {0} ' \
            'begin assign {0} {1} println {0} return {0} end'.format(
                name, delta)
        inside = [delta, delta]
    elif role == 'unassigned-local-of-callee':
        # q_g's local of that name is assigned on a path not taken: it has
        # no value, whatever the caller's parameter of the same name holds
        routine = 'define q_g begin if {{0}} begin assign {0} 1 end ' \
            'println {0} end define q_f with {0} begin q_g println {0} ' \
            'return {0} end'.format(name)
        # (with a global variable of that name, q_g reads the global)
        inside = [outer if case['outer'] == 'variable-before' else NOTHING,
                  arg, arg]
    elif role == 'local':
        routine = 'define q_f with q_p begin assign {0} {{q_p + {1}}} ' \
            'println {0} return {{{0} + 1}} end'.format(name, delta)
        inside = [arg + delta, arg + delta + 1]
    elif role == 'loop-index':
        routine = 'define q_f with q_p begin repeat with {0} from 1 to 3 ' \
            'print {0} println q_p return q_p end'.format(name)
        inside = [1, 2, 3, arg, arg]
    elif role == 'cycle-index':
        routine = 'define q_f with q_p begin repeat 2 with {0} cycle ' \
            'print {0} println q_p return q_p end'.format(name)
        inside = [0, 180, arg, arg]
    else:
        routine = 'define q_f with q_p begin repeat in "A" and "B" as {0} ' \
            'print {0} println q_p return q_p end'.format(name)
        inside = ['A', 'B', arg, arg]
    define_outer = {'macro-before': 'define {} {}'.format(name, outer),
                    'macro-after': 'define {} {}'.format(name, outer),
                    'variable-before': 'assign {} {}'.format(name, outer)}[
                        case['outer']]
    call = 'println [q_f {}] println {}'.format(
        '[q_none]' if role == 'parameter-given-nothing' else arg, name)
    if case['outer'] == 'macro-after':
        lines = [routine, define_outer, call]
    else:
        lines = [define_outer, routine, call]
    if case['outer'] == 'macro-before' and not role.startswith('parameter'):
        # not a parameter, so the name means the global - a constant: the
        # assignment (a loop variable is one) has to be rejected
        return '\n'.join(lines), 'rejected'
    after = outer
    if case['outer'] == 'variable-before' and role in (
            'local', 'loop-index', 'cycle-index', 'as-variable'):
        # documented: assigning to a name that is a global updates the global
        after = {'local': arg + delta, 'loop-index': None,
                 'cycle-index': None, 'as-variable': None}[role]
    return '\n'.join(lines), inside + [after]


def check_collision(acc, case):
    from verif.harness import shared_world
    world = shared_world('c03-collisions', [
        {'label': 'A', 'group': 'G', 'location': 'L'},
        {'label': 'B', 'group': 'G', 'location': 'L'}])
    del world.trace[:]
    text, expected = collision_script(case)
    result = world.run(text, budget=20000)
    acc.case(key=text, nontrivial=True,
             labels=['collision', 'outer:' + case['outer'],
                     'role:' + case['role']],
             sample={'script': text, 'expected': expected}
             if len(acc.samples) < 3 else None)
    sig = 'collision:{}:{}'.format(case['outer'].split('-')[0], case['role'])
    if expected == 'rejected':
        if result.compiled:
            acc.fail(sig + ':accepted', '{}\n-> accepted although {} is a '
                     'constant and not a parameter here'.format(
                         text, case['name']), case)
        return
    if not result.compiled or result.aborted:
        acc.fail(sig + ':did-not-run', '{}\n-> {} {}'.format(
            text, result.errors.strip(), result.aborted), case)
        return
    outs = [e[1] for e in result.trace if e[0] == 'out']
    # None in the expectation = not asserted (a loop variable after its loop)
    ok = len(outs) == len(expected) and all(
        want is None or (want == NOTHING and got is None) or got == want or (
            not isinstance(want, str) and not isinstance(got, str)
            and got is not None and abs(got - want) < 1e-9)
        for got, want in zip(outs, expected))
    if not ok:
        acc.fail(sig, '{}\n-> printed {}, the scope rules give {}'.format(
            text, outs, expected), case)

