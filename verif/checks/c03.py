"""C03 - parameters are by-value locals hiding globals; return from any depth."""
from verif.checks import progbase

ID = 'C03'
LEVEL = 'exploration'
RULE = (
    'Hypothesis generates programs dominated by routines: 1..4 routines with '
    '0..4 parameters whose names come from the same six letters as the '
    'globals, bodies with assignments to parameters, globals and fresh locals '
    'inside if/repeat at depth 0..3, nested and recursive calls (guarded by a '
    'decreasing argument), calls as statement, bracketed, argument of another '
    'call and expression operand, from top level and from inside routines, '
    '`return` / `return v` at any nesting depth; every readable variable is '
    'printed after each call. The observable trace of the production VM must '
    'equal that of the reference interpreter implementing the documented '
    'scope rules. Non-trivial = the run contains at least one of: a parameter '
    'named like a live global; assignment inside a loop inside a routine; a '
    'return from inside a loop; a call made from inside a routine; recursion. '
    'Distinct by script text + population.')
ASSUMPTIONS = [
    'Scope rules as in DESIGN.md Appendix A (docs/language.rst, "Routine '
    'Definitions" and "Variables").',
    'Macros never share a name with a variable or parameter; the value of a '
    'loop variable after its loop is never read.',
]
PROFILE = {
    'w_call': 14, 'w_assign': 10, 'w_routine': 4, 'w_return': 5, 'w_print': 4,
    'w_action': 2, 'w_setreg': 2, 'w_get': 0, 'w_timeat': 0, 'w_units': 0,
    'w_matrix': 0, 'w_zone': 0, 'w_wait': 0, 'w_time': 0, 'w_define': 1,
    'dump_after_call': True, 'light_loops': True, 'max_top': 10,
    'prelude_routines': 4, 'max_pop': 3,
}
MIN_LABELS = {'quick': {'return-in-loop': 150, 'assign-in-loop-in-routine': 300,
                        'call-from-routine': 500, 'param-hides-global': 300,
                        'recursion': 100}}


def _param_hides_global(program):
    assigned = set()
    for s in program:
        if s[0] == 'assign':
            assigned.add(s[1])
        elif s[0] == 'routine' and assigned & set(s[2]):
            return True
    return False


def _recursive(program):
    def mentions(node, name):
        if isinstance(node, list):
            if len(node) >= 2 and node[0] == 'call' and node[1] == name:
                return True
            return any(mentions(child, name) for child in node)
        return False
    return any(s[0] == 'routine' and mentions(s[3], s[1]) for s in program)


def nontrivial(outcome, case):
    labels = outcome.labels
    if _param_hides_global(case['program']):
        labels.add('param-hides-global')
    if _recursive(case['program']):
        labels.add('recursion')
    return ('stmt:call' in labels or 'call-from-routine' in labels) and any(
        l in labels for l in ('param-hides-global', 'return-in-loop',
                              'assign-in-loop-in-routine', 'call-from-routine',
                              'recursion'))


def plan(tier, seed_value):
    return progbase.plan(ID, tier, seed_value, quick=4000, thorough=200000)


def run_shard(spec):
    return progbase.run_shard(spec, ID, PROFILE, nontrivial)


def replay(case):
    return progbase.replay(case, ID, nontrivial)


def shrink(failure):
    return progbase.shrink(failure, ID, nontrivial)
