"""C14 - switching units re-expresses settings without changing what the
lights get; exactly the documented settings are rewritten."""
from fractions import Fraction

from hypothesis import given, seed, strategies as st

from verif import env  # noqa: F401
from verif.checks import progbase
from verif.lang import units_exact as ux
from verif.runner import Acc

ID = 'C14'
LEVEL = 'exploration'
RULE = (
    'Metamorphic. Hypothesis draws a start mode, register contents inside '
    'the documented ranges on fine grids (hue -360..720 step 0.25, percentages '
    'step 0.1, raw 0..65535, times and durations on a 1 ms grid up to 20 s '
    'and long ones (65.535 s, minutes, hours, up to 10^8 ms, 2^32 ms and '
    'beyond), kelvin '
    '1500..9000 incl. halves) and a chain of 1..4 `units` statements (all six '
    'transitions and the identity). Script A sends `set "A"` / `wait` without '
    'the chain, script B with it: the transmitted colour must agree within 1 '
    'raw unit per transition (as colours - RGB distance per rgb '
    'step (8/65535 allowed: one raw unit of hue moves a channel by up to 6) - when rgb is involved, hue ignored at zero saturation or '
    'brightness), duration and pending delay within 1 ms, kelvin '
    'bit-identical. A third script prints all nine registers before and '
    'after ONE switch: registers outside the documented rewrite set of that '
    'transition (and kelvin always) must be unchanged, a same-mode switch '
    'changes nothing, and rewritten registers must hold the converted value. '
    'The command after the chain is aimed at a light, a group, a location '
    'or all; in two cases of five the text also holds switches that are '
    'never executed (in an untaken branch, in a routine nobody calls) or the '
    'chain runs twice in a loop. '
    'Non-trivial = a non-grey, non-black colour with non-zero time or '
    'duration and at least one real transition. Distinct by script.')
ASSUMPTIONS = [
    'Rewrite sets are the table "Changed When Switching Units Mode" of '
    'docs/language.rst.',
]

MODES = ('logical', 'raw', 'rgb')
ALL = ('hue', 'saturation', 'brightness', 'kelvin', 'red', 'green', 'blue',
       'duration', 'time')
REWRITTEN = {
    ('logical', 'raw'): {'time', 'duration', 'hue', 'saturation',
                         'brightness'},
    ('raw', 'logical'): {'time', 'duration', 'hue', 'saturation',
                         'brightness'},
    ('rgb', 'raw'): {'time', 'duration', 'hue', 'saturation', 'brightness'},
    ('raw', 'rgb'): {'time', 'duration', 'red', 'green', 'blue'},
    ('rgb', 'logical'): {'hue', 'saturation', 'brightness'},
    ('logical', 'rgb'): {'red', 'green', 'blue'},
}
POP = [{'label': 'A', 'group': 'G', 'location': 'L', 'kind': 'plain'},
       {'label': 'B', 'group': 'G', 'location': 'L', 'kind': 'plain'}]


def num(value):
    if isinstance(value, int):
        return str(value)
    text = '{:.4f}'.format(value).rstrip('0')
    return text + '0' if text.endswith('.') else text


# milliseconds: a fine grid up to 20 s, and long times (16-bit edge, minutes,
# hours, a day)
MILLISECONDS = st.one_of(
    st.integers(0, 20000), st.integers(0, 20000),
    st.sampled_from([65535, 65536, 65537, 90000, 600000, 3600000, 86400000,
                     4294967295, 4294967296, 6 * 10 ** 9]),
    st.integers(0, 10 ** 8))


@st.composite
def cases(draw):
    mode = draw(st.sampled_from(MODES))
    regs = {}
    if mode == 'raw':
        for reg in ('hue', 'saturation', 'brightness'):
            regs[reg] = draw(st.one_of(
                st.integers(0, 65535),
                st.sampled_from([0, 65535, 32767, 32768, 1, 65534])))
        regs['duration'] = draw(MILLISECONDS)
        regs['time'] = draw(MILLISECONDS)
    else:
        if mode == 'logical':
            # the manual lets a hue be any angle: -90 is 270
            regs['hue'] = draw(st.one_of(st.integers(0, 1440),
                                         st.integers(-1440, 2880))) / 4
            regs['saturation'] = draw(st.integers(0, 1000)) / 10
            regs['brightness'] = draw(st.integers(0, 1000)) / 10
        else:
            for reg in ('red', 'green', 'blue'):
                regs[reg] = draw(st.one_of(
                    st.integers(0, 1000).map(lambda v: v / 10),
                    st.sampled_from([0, 100, 50])))
        regs['duration'] = draw(MILLISECONDS) / 1000
        regs['time'] = draw(MILLISECONDS) / 1000
    regs['kelvin'] = draw(st.one_of(
        st.integers(1500, 9000),
        st.integers(1500, 8999).map(lambda v: v + 0.5)))
    chain = draw(st.lists(st.sampled_from(MODES), min_size=1, max_size=4))
    # stale values in the registers the start mode does not use
    stale = {}
    for reg in ALL:
        if reg not in regs and draw(st.booleans()):
            stale[reg] = draw(st.integers(0, 100))
    # the time register may hold a time-of-day pattern instead of a number
    pattern = draw(st.sampled_from([None, None, None, None, '12:00', '*:30',
                                    '1*:*5']))
    # what the command after the chain is aimed at, and switches that are
    # written in the text but never executed (an untaken branch, a routine
    # that is not called) or executed twice (a loop round the chain)
    target = draw(st.sampled_from(['"A"', '"A"', 'group "G"', 'location "L"',
                                   'all']))
    decoy = draw(st.sampled_from([None, None, 'if', 'routine', 'loop']))
    return {'mode': mode, 'regs': {k: num(v) for k, v in regs.items()},
            'stale': {k: num(v) for k, v in stale.items()}, 'chain': chain,
            'pattern': pattern, 'target': target, 'decoy': decoy}


def settings_text(case):
    parts = ['units ' + case['mode']]
    for reg, text in list(case['stale'].items()) + list(case['regs'].items()):
        parts.append('{} {}'.format(reg, text))
    if case.get('pattern'):
        parts.append('time at ' + case['pattern'])
    return parts


def run(text):
    from verif.harness import shared_world
    world = shared_world('c14', POP)
    del world.trace[:]
    del world.lan.protocol_errors[:]
    result = world.run(text, budget=20000)
    return world, result


def rgb_of(raw):
    return ux.raw_hsb_to_rgb(raw)


def check_invariance(acc, case):
    base = settings_text(case)
    target = case.get('target', '"A"')
    tail = ['set ' + target, 'wait', 'on ' + target]
    text_a = '\n'.join(base + tail)
    chain = list(case['chain'])
    decoy = case.get('decoy')
    switches = []
    for mode in chain:
        if decoy == 'if':
            # the same switch in a branch that is not taken
            switches.append('if {0} begin units ' + mode + ' end')
        elif decoy == 'routine':
            switches.append('define q_never_{} begin units {} end'.format(
                len(switches), mode))
        switches.append('units ' + mode)
    if decoy == 'loop':
        switches = ['repeat 2 begin'] + switches + ['end']
        chain = chain * 2
    text_b = '\n'.join(base + switches + tail)
    modes = [case['mode']] + chain
    transitions = [(a, b) for a, b in zip(modes, modes[1:]) if a != b]
    payload = {'kind': 'invariance', 'case': case}
    _, res_a = run(text_a)
    events_a = [e for e in res_a.trace if e[0] in ('cmd', 'delay',
                                                   'wait_until')]
    world, res_b = run(text_b)
    events_b = [e for e in res_b.trace if e[0] in ('cmd', 'delay',
                                                   'wait_until')]
    sets_a = [e for e in events_a if e[0] == 'cmd' and e[2] == 'set_color']
    color_a = sets_a[0][3] if sets_a else None
    grey = color_a is not None and (color_a[1] == 0 or color_a[2] == 0)
    timed = any(e[0] == 'delay' for e in events_a) or (
        sets_a and sets_a[0][4] > 0)
    nontrivial = bool(transitions) and not grey and bool(timed)
    labels = ['invariance'] + sorted({'{}->{}'.format(a, b)
                                      for a, b in transitions})
    if case.get('pattern'):
        labels.append('time-register-holds-a-pattern')
    if not transitions:
        labels.append('identity-chain')
    labels.append('target:' + target.split(' ')[0].strip('"'))
    if decoy:
        labels.append('decoy:' + decoy)
    acc.case(key=text_b, nontrivial=nontrivial, labels=labels,
             sample={'with_switch': text_b, 'sent': [list(e[1:]) for e in
                                                     events_b][:3]}
             if nontrivial and len(acc.samples) < 3 else None)
    for name, res in (('A', res_a), ('B', res_b)):
        if not res.compiled or res.aborted:
            acc.fail('invariance-run', 'script {} did not run: {} {}\n{}'
                     .format(name, res.errors.strip(), res.aborted,
                             text_b if name == 'B' else text_a), payload)
            return
    for message in world.lan.protocol_errors[:1]:
        acc.fail('protocol', message + '\n' + text_b, payload)
    def shape(events):
        return [e[:1] if e[0] == 'delay' else e[:2] if e[0] == 'wait_until'
                else e[:3] for e in events]
    if shape(events_a) != shape(events_b):
        acc.fail('invariance-events',
                 'a units chain changed which requests are made: {} vs {}\n{}'
                 .format(shape(events_a), shape(events_b), text_b), payload)
        return
    steps = len(transitions)
    rgb_steps = sum(1 for a, b in transitions if 'rgb' in (a, b))
    problems = []
    for a, b in zip(events_a, events_b):
        if a[0] == 'wait_until':
            continue        # same pattern table: compared by shape()
        if a[0] == 'delay':
            if abs(a[1] - b[1]) > 0.001 + 1e-12:
                problems.append(('delay', 'pending delay {} became {}'.format(
                    a[1], b[1])))
            continue
        if a[2] == 'set_color':
            ca, cb = a[3], b[3]
            if ca[3] != cb[3]:
                problems.append(('kelvin', 'kelvin sent {} became {}'.format(
                    ca[3], cb[3])))
            if rgb_steps == 0:
                for index in range(3):
                    diff = abs(ca[index] - cb[index])
                    if index == 0:
                        diff = min(diff, 65535 - diff)
                    if diff > steps:
                        problems.append(('colour',
                                         'colour sent {} became {}'.format(
                                             ca, cb)))
                        break
            else:
                worst = max(abs(x - y) for x, y in zip(rgb_of(ca), rgb_of(cb)))
                if worst > Fraction(8 * rgb_steps + 6 * steps, 65535):
                    problems.append(('colour-rgb',
                                     'colour sent {} became {} (RGB distance '
                                     '{:.1f}/65535)'.format(
                                         ca, cb, float(worst * 65535))))
            da, db = a[4], b[4]
        else:
            da, db = a[4], b[4]
        if abs(da - db) > 1:
            problems.append(('duration', '{} duration {} ms became {} ms'
                             .format(a[2], da, db)))
    for sig, what in problems[:1]:
        acc.fail('invariance:' + sig + ':' + '/'.join(
            sorted({'{}->{}'.format(x, y) for x, y in transitions})[:2]),
            '{}\n--- script ---\n{}'.format(what, text_b), payload)


def check_rewrite_table(acc, case):
    case = dict(case, pattern=None)     # numeric registers only here
    target = case['chain'][0]
    source = case['mode']
    fmt = 'printf "' + ' '.join('{' + r + '!r}' for r in ALL) + '"'
    decoy = {'if': ['if {0} begin units ' + target + ' end'],
             'routine': ['define q_never begin units ' + target + ' end'],
             }.get(case.get('decoy'), [])
    text = '\n'.join(settings_text(case) + [fmt] + decoy + [
        'units ' + target, fmt])
    payload = {'kind': 'rewrite', 'case': case}
    _, result = run(text)
    outs = [e[1] for e in result.trace if e[0] == 'out']
    acc.case(key=text, nontrivial=source != target,
             labels=['rewrite', '{}->{}'.format(source, target)],
             sample={'script': text, 'before_after': outs}
             if source != target and len(acc.samples) < 5 else None)
    if not result.compiled or result.aborted or len(outs) != 2:
        acc.fail('rewrite-run', 'did not run: {} {}\n{}'.format(
            result.errors.strip(), result.aborted, text), payload)
        return
    before = dict(zip(ALL, outs[0].split(' ')))
    after = dict(zip(ALL, outs[1].split(' ')))
    allowed = REWRITTEN.get((source, target), set())
    for reg in ALL:
        if reg not in allowed and before[reg] != after[reg]:
            acc.fail('rewrite:{}->{}:{}'.format(source, target, reg),
                     'units {} -> {} changed {} from {} to {}, which the '
                     'manual lists as unaltered\n{}'.format(
                         source, target, reg, before[reg], after[reg], text),
                     payload)
            return
    # rewritten registers hold the converted value
    regs_before = {r: float(v) for r, v in before.items()}
    regs_after = {r: float(v) for r, v in after.items()}
    want_color = ux.color_acceptable(source, regs_before)
    got_color = ux.color_acceptable(target, regs_after)
    if source != target and None not in want_color and None not in got_color:
        a = [_mid(x) for x in want_color[:3]]
        b = [_mid(x) for x in got_color[:3]]
        if 'rgb' in (source, target):
            worst = max(abs(x - y) for x, y in zip(
                ux.raw_hsb_to_rgb(a), ux.raw_hsb_to_rgb(b)))
            bad = worst > Fraction(8, 65535)
        else:
            diffs = [abs(x - y) for x, y in zip(a, b)]
            diffs[0] = min(diffs[0], 65535 - diffs[0])
            bad = max(diffs) > 1
        if bad:
            acc.fail('rewrite-value:{}->{}'.format(source, target),
                     'after units {} -> {} the registers describe raw {} '
                     'instead of {}\n{}'.format(source, target, b, a, text),
                     payload)
    for reg in ('time', 'duration'):
        factor = 1.0
        if source != target and 'raw' in (source, target):
            factor = 1000.0 if target == 'raw' else 0.001
        if abs(regs_after[reg] - regs_before[reg] * factor) > 1e-6 * max(
                1.0, abs(regs_before[reg] * factor)):
            acc.fail('rewrite-value:{}:{}->{}'.format(reg, source, target),
                     'units {} -> {} turned {} {} into {}\n{}'.format(
                         source, target, reg, before[reg], after[reg], text),
                     payload)


def _mid(item):
    if isinstance(item, tuple):
        return int(round(item[1]))
    return sorted(item)[0]


def plan(tier, seed_value):
    per = 4000 if tier == 'thorough' else 160
    specs = []
    for k in range(16):
        specs.append({'kind': 'invariance', 'seed': seed_value * 1000 + k,
                      'examples': per})
        specs.append({'kind': 'rewrite', 'seed': seed_value * 1000 + 50 + k,
                      'examples': per})
    return specs


def run_shard(spec):
    acc = Acc()
    function = check_invariance if spec['kind'] == 'invariance' \
        else check_rewrite_table

    @seed(spec['seed'])
    @progbase.hyp_settings(spec['examples'])
    @given(cases())
    def go(case):
        function(acc, case)
    go()
    return acc


def replay(case):
    acc = Acc()
    if case['kind'] == 'invariance':
        check_invariance(acc, case['case'])
    else:
        check_rewrite_table(acc, case['case'])
    return [(f['sig'], f['what']) for f in acc.failures.values()]
