"""C05 - on every path, compiled control transfers stay in the script and
frames balance; loading does not change where any branch leads."""
import copy
import itertools

from hypothesis import given, seed, strategies as st

from verif import env, runner  # noqa: F401
from verif.checks import progbase
from verif.lang import gen, printer, ref
from verif.runner import Acc

ID = 'C05'
LEVEL = 'exploration'
RULE = (
    'Generated programs dense in if / else-if / else, every loop form, break, '
    'routine definitions (also inside if and repeat bodies unless a known '
    'finding excludes them), calls and returns. (a) Static, all paths: the '
    'text is compiled and loaded; the relocation map pre-load index -> loaded '
    'index is derived structurally and cross-checked by object identity, and '
    'every JUMP must target, after loading, the image of the instruction it '
    'targeted before; then the loaded image is explored exhaustively over '
    'abstract states (pc, stack of loop / call frames), taking BOTH arms of '
    'every conditional jump (recursion depth <= 3): pc stays inside the '
    'image, a pc inside a routine body only with that routine\'s call frame, '
    'no exit from a routine except RETURN/END, every JSR names a loaded '
    'routine, END_LOOP always finds its loop frame, nothing is left on the '
    'frame stack at the end, ROUTINE markers are unreachable. (b) Dynamic, '
    'all decision tapes: every generated condition is replaced by [coin] (an '
    'injected built-in reading a decision tape), a `print <id>` marker '
    'precedes every statement, and for ALL 2^k tapes (k = 8, 10 thorough) '
    'the run of the real VM must equal the reference interpreter\'s, and a '
    'run that ends by itself must leave the evaluation stack empty and no '
    'frame behind. '
    'Non-trivial = image with >= 3 conditional jumps and >= 1 routine (a); '
    '>= 4 distinct marker sequences over the tapes (b). Distinct by script.')
ASSUMPTIONS = [
    'The abstract exploration treats data-dependent jumps (including the '
    'generated light-discovery prologues) as non-deterministic; it is sound '
    'for the structural invariants and says nothing about values.',
    'The loader keeps the parser\'s Instruction objects (checked: identity '
    'map must be total).',
]
PROFILE = {
    'w_if': 12, 'w_repeat': 10, 'w_break': 6, 'w_return': 6, 'w_call': 8,
    'w_routine': 4, 'w_action': 3, 'w_setreg': 2, 'w_assign': 3, 'w_print': 2,
    'w_get': 0, 'w_timeat': 0, 'w_units': 0, 'w_matrix': 1, 'w_zone': 0,
    'w_wait': 0, 'w_time': 0, 'w_define': 0, 'max_depth': 4, 'max_top': 9,
    'max_block': 3, 'max_pop': 3, 'prelude_routines': 2,
    'routine_in_blocks': True,
}
COIN = ['call', 'coin', []]


# ---- (a) static ------------------------------------------------------------------
def compile_and_load(text):
    from bardolph.parser.parse import Parser
    from bardolph.vm.loader import Loader
    parser = Parser()
    if not parser.parse(text):
        return None, None, None, parser.get_errors()
    before = list(parser.get_program())
    loader = Loader()
    loader.load(before)
    return before, loader.get_code(), loader.get_routines(), ''


def static_check(text):
    """[(sig, what)] for one script; also returns stats."""
    from bardolph.controller.routine import RuntimeRoutine
    from bardolph.vm.vm_codes import JumpCondition, OpCode, Operand
    before, code, routines, errors = compile_and_load(text)
    if before is None:
        return [('compile-rejected', 'well-formed program rejected: ' +
                 errors.strip()[:160])], {}
    problems = []
    # -- relocation map (structural) ------------------------------------------
    routine_part, main_part = [], []
    current = None
    ranges_pre = {}
    for index, inst in enumerate(before):
        if current is None and inst.op_code is OpCode.ROUTINE:
            current = inst.param0
            ranges_pre[current] = [index, None]
            routine_part.append(index)
        elif current is not None:
            routine_part.append(index)
            if inst.op_code is OpCode.END and inst.param0 == current:
                ranges_pre[current][1] = index
                current = None
        else:
            main_part.append(index)
    shift = 1 if routine_part else 0
    mapping = {}
    for position, index in enumerate(routine_part):
        mapping[index] = shift + position
    for position, index in enumerate(main_part):
        mapping[index] = shift + len(routine_part) + position
    identity = {id(inst): position for position, inst in enumerate(code)}
    for index, inst in enumerate(before):
        loaded = code[mapping[index]] if mapping[index] < len(code) else None
        same = identity.get(id(inst)) == mapping[index]
        if not same and loaded is not None and inst.op_code is OpCode.JUMP:
            # the loader may replace a jump by a copy with a new offset
            same = (loaded.op_code is OpCode.JUMP and
                    loaded.param0 is inst.param0)
        if not same:
            problems.append(('relocation-map',
                             'instruction {} {} was loaded at {} but its '
                             'place by structure is {}'.format(
                                 index, inst, identity.get(id(inst)),
                                 mapping[index])))
            break
    length = len(code)
    routine_ranges = {}
    for name, (start, end) in ranges_pre.items():
        if end is None:
            problems.append(('routine-without-end', name))
            continue
        routine_ranges[name] = (mapping[start], mapping[end])

    def region(position):
        for name, (start, end) in routine_ranges.items():
            if start <= position <= end:
                return name
        return None
    jumps = 0
    for index, inst in enumerate(before):
        if inst.op_code is not OpCode.JUMP:
            continue
        if inst.param0 is JumpCondition.INDIRECT:
            continue
        if inst.param0 is not JumpCondition.ALWAYS:
            jumps += 1
        offset = inst.param1
        if not isinstance(offset, int):
            problems.append(('jump-unpatched', 'jump {} at {} has offset {!r}'
                             .format(inst, index, offset)))
            continue
        target = index + offset
        if not 0 <= target <= len(before):
            problems.append(('jump-outside-program',
                             'jump at {} targets {} outside the {}-instruction '
                             'program'.format(index, target, len(before))))
            continue
        loaded_offset = code[mapping[index]].param1
        if not isinstance(loaded_offset, int):
            problems.append(('jump-unpatched', 'loaded jump at {} has offset '
                             '{!r}'.format(mapping[index], loaded_offset)))
            continue
        post = mapping[index] + loaded_offset
        # Falling into a routine definition means continuing behind it.
        starts = {start: end for start, end in ranges_pre.values()
                  if end is not None}
        if region(mapping[index]) is None:
            while target in starts:
                target = starts[target] + 1
        if target == len(before):
            want = length
            # a jump inside a routine can never mean "end of program"
        else:
            want = mapping[target]
        in_routine = region(mapping[index])
        if target == len(before) and in_routine is not None:
            problems.append(('jump-leaves-routine',
                             'jump at {} inside routine {} targets the end '
                             'of the program'.format(index, in_routine)))
        elif post != want:
            problems.append(('relocation-changes-branch',
                             'jump at {} targets instruction {} ({}) before '
                             'loading but {} ({}) after'.format(
                                 index, target,
                                 before[target] if target < len(before)
                                 else 'END', post,
                                 code[post] if 0 <= post < length
                                 else 'outside')))
    if problems:
        return problems, {}

    # -- abstract exploration of the loaded image -------------------------------
    start_state = (0, ())
    seen = {start_state}
    work = [start_state]
    explored = 0
    limit = 150000
    while work and not problems:
        pc, stack = work.pop()
        explored += 1
        if explored > limit:
            break
        if pc == length:
            if stack:
                problems.append(('dangling-frames',
                                 'the program can end with frames left: {}'
                                 .format(stack)))
            continue
        if not 0 <= pc < length:
            problems.append(('pc-outside-image',
                             'control reaches {} outside 0..{}'.format(
                                 pc, length)))
            break
        inst = code[pc]
        here = region(pc)
        calls = [f for f in stack if f[0] == 'call']
        owner = calls[-1][2] if calls else None
        if here is not None and here != owner:
            problems.append(('routine-body-without-call',
                             'control reaches instruction {} inside routine '
                             '{} while the innermost call is {}'.format(
                                 pc, here, owner)))
            break
        op = inst.op_code
        successors = []

        def go(target, new_stack=stack):
            successors.append((target, new_stack))
        if op is OpCode.ROUTINE:
            problems.append(('routine-marker-reached',
                             'ROUTINE marker at {} is reachable'.format(pc)))
            break
        if op is OpCode.JUMP:
            if inst.param0 is JumpCondition.ALWAYS:
                go(pc + inst.param1)
            else:
                go(pc + inst.param1)
                go(pc + 1)
        elif op is OpCode.CTX:
            go(pc + 1, stack + (('ctx',),))
        elif op is OpCode.JSR:
            if not stack or stack[-1][0] != 'ctx':
                problems.append(('jsr-without-ctx',
                                 'JSR at {} without a pending CTX frame'
                                 .format(pc)))
                break
            routine = routines.get(inst.param0)
            if routine is None:
                problems.append(('missing-routine',
                                 'JSR at {} names {!r}, which the loader does '
                                 'not have'.format(pc, inst.param0)))
                break
            if isinstance(routine, RuntimeRoutine):
                go(pc + 1, stack[:-1])
            elif len(calls) >= 3:
                pass        # recursion bound
            else:
                address = routine.get_address()
                if region(address) != inst.param0:
                    problems.append(('bad-entry',
                                     'routine {} starts at {}, outside its '
                                     'body'.format(inst.param0, address)))
                    break
                go(address, stack[:-1] + (('call', pc + 1, inst.param0),))
        elif op is OpCode.RETURN or (
                op is OpCode.END and inst.param0 is not Operand.MATRIX):
            frames = list(stack)
            while frames and frames[-1][0] == 'loop':
                frames.pop()
            if not frames or frames[-1][0] != 'call':
                problems.append(('return-without-call',
                                 'RETURN/END at {} with no call frame: {}'
                                 .format(pc, stack)))
                break
            frame = frames.pop()
            go(frame[1], tuple(frames))
        elif op is OpCode.LOOP:
            go(pc + 1, stack + (('loop',),))
        elif op is OpCode.END_LOOP:
            if not stack or stack[-1][0] != 'loop':
                problems.append(('end-loop-without-loop',
                                 'END_LOOP at {} with frame stack {}'.format(
                                     pc, stack)))
                break
            go(pc + 1, stack[:-1])
        elif op is OpCode.STOP:
            pass
        else:
            go(pc + 1)
        for target, new_stack in successors:
            if here is not None and op not in (OpCode.RETURN, OpCode.END,
                                               OpCode.JSR):
                if region(target) != here:
                    problems.append(('jump-leaves-routine',
                                     '{} at {} inside routine {} leads to {} '
                                     'outside it'.format(op.name, pc, here,
                                                         target)))
                    break
            state = (target, new_stack)
            if state not in seen:
                seen.add(state)
                work.append(state)
    stats = {'states': len(seen), 'jumps': jumps,
             'routines': len(routine_ranges),
             'truncated': explored > limit}
    return problems, stats


def check_static(acc, case):
    from verif.harness import World
    World(case['population'])
    text = printer.to_text(case['program'])
    problems, stats = static_check(text)
    nontrivial = stats.get('jumps', 0) >= 3 and stats.get('routines', 0) >= 1
    labels = ['static']
    if stats.get('truncated'):
        labels.append('exploration-truncated')
    if has_nested_routine(case['program']):
        labels.append('routine-defined-in-block')
    acc.case(key=text, nontrivial=nontrivial, labels=labels,
             sample={'script': text[:600], 'abstract_states': stats.get(
                 'states')} if nontrivial and len(acc.samples) < 2 else None)
    acc.extra['abstract_states'] = acc.extra.get('abstract_states', 0) + \
        stats.get('states', 0)
    for sig, what in problems[:1]:
        acc.fail('static:' + sig, '{}\n--- script ---\n{}'.format(what, text),
                 {'kind': 'static', 'case': case, 'text': text})


def has_nested_routine(program, depth=0):
    for s in program:
        if s[0] == 'routine' and depth > 0:
            return True
        if s[0] == 'if':
            if has_nested_routine(s[2], depth + 1) or (
                    s[3] and has_nested_routine(s[3], depth + 1)):
                return True
        elif s[0] == 'repeat' and has_nested_routine(s[2], depth + 1):
            return True
    return False


# ---- (b) dynamic, all tapes ---------------------------------------------------------
def is_guard(cond):
    return (cond[0] == 'bin' and cond[1] in ('>=', '<=') and
            cond[2][0] == 'var' and cond[2][1] in gen.COUNTERS + ['n'] and
            cond[3][0] == 'num')


def coinify(program):
    """Replace conditions by [coin] and put a marker before every statement."""
    counter = itertools.count(1)

    def body(statements):
        out = []
        for s in statements:
            out.append(['print', ['num', str(next(counter))]])
            out.append(statement(s))
        return out

    def statement(s):
        s = copy.deepcopy(s)
        tag = s[0]
        if tag == 'if':
            if not is_guard(s[1]):
                s[1] = COIN
            s[2] = body(s[2])
            if s[3] is not None:
                if len(s[3]) == 1 and s[3][0][0] == 'if' and \
                        s[3][0][-1] == 'chain':
                    s[3] = [statement(s[3][0])]
                else:
                    s[3] = body(s[3])
        elif tag == 'repeat':
            spec = s[1]
            if spec[0] == 'while':
                cond = spec[1]
                first = cond[2] if (cond[0] == 'bin' and cond[1] == 'and'
                                    and cond[2][0] == 'bin'
                                    and cond[2][1] == '<') else cond
                spec[1] = ['bin', 'and', first, COIN]
            s[2] = body(s[2])
        elif tag == 'routine':
            s[3] = body(s[3])
        elif tag == 'action':
            for operand in s[2]:
                if operand[0] == 'matrix_block':
                    operand[2] = body(operand[2])
        return s
    return body(program)


def count_coins(node):
    if isinstance(node, list):
        if node == COIN:
            return 1
        return sum(count_coins(child) for child in node)
    return 0


def run_tapes(acc, case, bits):
    from bardolph.runtime.bardolph_fn import builtin
    from verif.harness import World
    from verif import progcheck
    program = coinify(case['program'])
    population = case['population']
    text = printer.to_text(program)
    sites = count_coins(program)
    bits = min(bits, max(1, sites * 2))
    tape_state = {'tape': (), 'pos': 0}

    def next_bit():
        pos = tape_state['pos']
        tape_state['pos'] = pos + 1
        tape = tape_state['tape']
        return tape[pos] if pos < len(tape) else 0

    @builtin
    def coin():
        return next_bit()
    world = World(population, extra_fns={'coin': coin})
    sequences = set()
    payload = {'kind': 'tapes', 'case': case, 'bits': bits}
    failed = False
    discarded = 0
    for tape in itertools.product((0, 1), repeat=bits):
        tape_state.update(tape=tape, pos=0)
        del world.trace[:]
        result = world.run(text, budget=60000)
        if not result.compiled:
            acc.fail('tapes:compile-rejected', 'well-formed program rejected: '
                     '{}\n{}'.format(result.errors.strip()[:200], text),
                     payload)
            failed = True
            break
        observed = progcheck.observable(result.trace)
        feed = [e[2] for e in observed if e[0] == 'get']
        ref_state = {'pos': 0}

        def ref_coin():
            pos = ref_state['pos']
            ref_state['pos'] = pos + 1
            return tape[pos] if pos < len(tape) else 0
        interp = ref.Interp(population, get_feed=feed, budget=30000,
                            extra_builtins={'coin': ref_coin})
        try:
            interp.run(program)
        except (ref.Undefined, ref.Budget):
            discarded += 1
            continue
        except ref.RefBug as ex:
            raise env.HarnessError('reference: {}\n{}'.format(ex, text))
        if diff_free_end(result):
            machine = result.job._machine
            left = len(machine._vm_math._eval_stack)
            top = machine._call_stack.get_top()
            frames_left = getattr(top, 'parent', None) is not None
            if left or frames_left:
                acc.fail('tapes:dangling-at-end',
                         'with decisions {} the run ended with {} value(s) '
                         'on the evaluation stack{}\n--- script ---\n{}'
                         .format(''.join(map(str, tape)), left,
                                 ' and a frame that was not left'
                                 if frames_left else '', text),
                         dict(payload, tape=list(tape)))
                failed = True
                break
        markers = tuple(e[1] for e in interp.trace
                        if e[0] == 'out' and isinstance(e[1], int)
                        and not isinstance(e[1], bool))
        sequences.add(markers)
        diff = ref.compare(interp.trace, observed)
        if diff is not None:
            if result.budget_exhausted and diff[0] >= len(observed):
                discarded += 1
                continue
            acc.fail('tapes:path-differs',
                     'with decisions {} the VM leaves the path of the source '
                     'at {}{}\n--- script ---\n{}'.format(
                         ''.join(map(str, tape)), diff[1],
                         ' [{}]'.format(result.aborted) if result.aborted
                         else '', text), dict(payload, tape=list(tape)))
            failed = True
            break
    nontrivial = len(sequences) >= 4
    acc.case(key=text, nontrivial=nontrivial,
             labels=['tapes', 'paths:{}'.format(min(len(sequences), 8))],
             sample={'script': text[:500], 'tapes': 2 ** bits,
                     'distinct_paths': len(sequences)}
             if nontrivial and len(acc.samples) < 2 else None)
    acc.extra['tape_runs'] = acc.extra.get('tape_runs', 0) + 2 ** bits
    acc.extra['tape_runs_discarded'] = acc.extra.get(
        'tape_runs_discarded', 0) + discarded


def diff_free_end(result):
    """The run came to its end by itself: every loop and call it entered has
    been left, so nothing may be left behind."""
    return result.compiled and not result.aborted and \
        not result.budget_exhausted and result.bad_pc is None


# ---- driver ---------------------------------------------------------------------------
def plan(tier, seed_value):
    specs = []
    static = 64000 if tier == 'thorough' else 6400
    tapes = 3200 if tier == 'thorough' else 160
    shards = 64 if tier == 'thorough' else 16    # many short Hypothesis runs
    for k in range(shards):
        specs.append({'kind': 'static', 'seed': seed_value * 1000 + k,
                      'examples': static // shards})
        specs.append({'kind': 'tapes', 'seed': seed_value * 1000 + 500 + k,
                      'examples': tapes // shards,
                      'bits': 8 if tier == 'thorough' else 6})
    return specs


def run_shard(spec):
    acc = Acc()
    prof = progbase.profile_for(ID, PROFILE)
    acc.extra['avoided_known'] = sorted(runner.avoid_flags(ID))
    if spec['kind'] == 'static':
        @seed(spec['seed'])
        @progbase.hyp_settings(spec['examples'])
        @given(gen.programs(prof))
        def run(case):
            check_static(acc, case)
        run()
    else:
        prof = dict(prof, routine_in_blocks=False, max_top=6, max_depth=3)

        @seed(spec['seed'])
        @progbase.hyp_settings(spec['examples'])
        @given(gen.programs(prof))
        def run(case):
            run_tapes(acc, case, spec['bits'])
        run()
    return acc


def replay(case):
    acc = Acc()
    if case['kind'] == 'static':
        if 'text' in case and 'case' not in case:
            from verif.harness import World
            World([])
            problems, _ = static_check(case['text'])
            return [('static:' + s, w) for s, w in problems[:1]]
        check_static(acc, case['case'])
    else:
        run_tapes(acc, case['case'], case['bits'])
    return [(f['sig'], f['what']) for f in acc.failures.values()]
