"""Common driver for the checks that compare generated programs with the
reference interpreter (C01-C04)."""
import copy
import time

from hypothesis import given, seed, settings, HealthCheck

from verif import env, progcheck, runner
from verif.env import HarnessError
from verif.lang import gen, printer
from verif.runner import Acc

SHARDS = 16


def hyp_settings(examples):
    return settings(max_examples=examples, database=None, deadline=None,
                    derandomize=False, report_multiple_bugs=False,
                    suppress_health_check=list(HealthCheck))


def profile_for(prop, base):
    prof = gen.profile(**base)
    for flag in runner.avoid_flags(prop):
        if flag in prof:
            prof[flag] = False
    return prof


def plan(prop, tier, seed_value, quick, thorough, extra=None):
    # Hypothesis slows down as one run's example count grows (it keeps a
    # tree of what it has generated): the thorough tier is cut into more,
    # smaller runs, which also balances the cores better.
    shards = 4 * SHARDS if tier == 'thorough' else SHARDS
    per = (thorough if tier == 'thorough' else quick) // shards
    specs = []
    for k in range(shards):
        spec = {'seed': seed_value * 1000 + k, 'examples': per}
        spec.update(extra or {})
        specs.append(spec)
    return specs


def evaluate(acc, case, prop, nontrivial_fn, layout=printer.PLAIN,
             tolerance=1, sample_every=997):
    outcome = progcheck.run_case(case, layout=layout, tolerance=tolerance)
    if outcome.status == 'discard':
        acc.discard(outcome.why.split(':')[0] + ':' + outcome.why.split(':')[-1][:30])
        return outcome
    nontrivial = bool(nontrivial_fn(outcome, case))
    labels = sorted(outcome.labels)
    sample = None
    if nontrivial and len(acc.samples) < 3:
        sample = {'script': outcome.text,
                  'population': [[s['label'], s['group'], s['location'],
                                  s.get('kind', 'plain')]
                                 for s in case['population']],
                  'events': len(outcome.expected or [])}
    acc.case(key=outcome.text + repr(sorted(
        (s['label'], s['group'], s['location'], s.get('kind'))
        for s in case['population'])), nontrivial=nontrivial, labels=labels,
        sample=sample)
    if outcome.status == 'fail':
        acc.fail(outcome.sig, '{}\n--- script ---\n{}'.format(
            outcome.what, outcome.text), dict(case, text=outcome.text))
    return outcome


def run_shard(spec, prop, base_profile, nontrivial_fn, need=(), tolerance=1):
    acc = Acc()
    prof = profile_for(prop, base_profile)
    acc.extra['avoided_known'] = sorted(
        flag for flag in runner.avoid_flags(prop))

    @seed(spec['seed'])
    @hyp_settings(spec['examples'])
    @given(gen.programs(prof, need=need))
    def run(case):
        evaluate(acc, case, prop, nontrivial_fn, tolerance=tolerance)
    run()
    return acc


def replay(case, prop, nontrivial_fn, tolerance=1):
    acc = Acc()
    evaluate(acc, {'program': case['program'],
                   'population': case['population']}, prop, nontrivial_fn,
             tolerance=tolerance)
    return [(f['sig'], f['what']) for f in acc.failures.values()]


# ---- shrinking ------------------------------------------------------------------
def _paths(body, prefix=()):
    """Every statement position (path of indices) in a program."""
    for index, s in enumerate(body):
        path = prefix + (index,)
        yield path
        tag = s[0]
        if tag == 'if':
            yield from _paths(s[2], path + (2,))
            if s[3]:
                yield from _paths(s[3], path + (3,))
        elif tag == 'repeat':
            yield from _paths(s[2], path + (2,))
        elif tag == 'routine':
            yield from _paths(s[3], path + (3,))
        elif tag == 'action':
            for k, operand in enumerate(s[2]):
                if operand[0] == 'matrix_block':
                    yield from _paths(operand[2], path + (2, k, 2))


def _remove(program, path):
    program = copy.deepcopy(program)
    node = program
    for step in path[:-1]:
        node = node[step]
    del node[path[-1]]
    return program


def _hoist(program, path):
    """Replace a compound statement by its body."""
    program = copy.deepcopy(program)
    node = program
    for step in path[:-1]:
        node = node[step]
    s = node[path[-1]]
    if s[0] in ('if', 'repeat'):
        node[path[-1]:path[-1] + 1] = s[2]
        return program
    return None


def shrink(failure, prop, nontrivial_fn, seconds=25, tolerance=1):
    case = failure['case']
    sig = failure['sig']
    deadline = time.time() + seconds

    def fails(candidate):
        try:
            outcome = progcheck.run_case(candidate, tolerance=tolerance)
        except (HarnessError, Exception):
            return None
        if outcome.status == 'fail' and outcome.sig == sig:
            return outcome
        return None

    best = {'program': case['program'], 'population': case['population']}
    best_outcome = None
    changed = True
    while changed and time.time() < deadline:
        changed = False
        for path in sorted(_paths(best['program']), reverse=True):
            if time.time() > deadline:
                break
            for transform in (_remove, _hoist):
                candidate_program = transform(best['program'], path)
                if not candidate_program:
                    continue
                candidate = {'program': candidate_program,
                             'population': best['population']}
                outcome = fails(candidate)
                if outcome is not None:
                    best, best_outcome, changed = candidate, outcome, True
                    break
            if changed:
                break
        if not changed:
            for index in range(len(best['population'])):
                population = best['population'][:index] + best[
                    'population'][index + 1:]
                candidate = {'program': best['program'],
                             'population': population}
                outcome = fails(candidate)
                if outcome is not None:
                    best, best_outcome, changed = candidate, outcome, True
                    break
    if best_outcome is None:
        return failure
    return {'sig': sig,
            'what': '{}\n--- script ---\n{}'.format(
                best_outcome.what, best_outcome.text),
            'case': dict(best, text=best_outcome.text), 'size': 0}
