"""C17 - compiles and runs are independent of what was compiled or run before."""
import contextlib
import io

from hypothesis import given, seed, strategies as st

from verif import env  # noqa: F401
from verif.checks import progbase
from verif.lang import gen, printer
from verif.progcheck import observable
from verif.runner import Acc

ID = 'C17'
LEVEL = 'exploration'
RULE = (
    'Differential (history vs. fresh object). (a) Hypothesis draws sequences '
    'of 2..6 texts - valid generated programs, and the same programs '
    'truncated at a random token (inside loops, routines, matrix blocks, '
    'expressions), with a token deleted, duplicated or replaced - and '
    'compiles them one after another on ONE Parser; result, error text and '
    'instruction listing of every compile must equal those of a fresh '
    'Parser. (b) One ScriptJob is executed 2..4 times, some runs stopped '
    'from a device callback after k commands, optionally reloaded with '
    'another text in between; every complete run must produce the trace of '
    'the first complete run, a stopped run a prefix of its device commands, and the listing '
    'and every time-pattern table of the compiled program must be unchanged '
    'by execution. (c) Jobs A (complete or stopped) then B run in one '
    'process with the production stdout binding; trace and stdout of B must '
    'equal B alone in a fresh container. In half of (b) and (c) the '
    'earlier run ends with statements that leave state behind in every '
    'register, the unit mode and the saved default colour, and the later '
    'run begins with statements that show them (a printf of all '
    'registers, a matrix command whose unstaged cells take the default). '
    'Non-trivial = a sequence in which '
    'an invalid/truncated text precedes a valid one; a re-execution after a '
    'stop; a job following one that changed unit mode, defined variables or '
    'left output pending. Distinct by the sequence of texts.')
ASSUMPTIONS = [
    'Device state is reset to the population\'s initial state before every '
    'run so that `get` sees the same colours; lights are the simulated LAN.',
    'A parse that raises is compared by exception type (crashes themselves '
    'are C06\'s business).',
]
PROFILE = gen.profile(routine_in_blocks=True, max_top=7, max_block=3, max_depth=2, max_pop=4,
                      prelude_routines=2, w_units=2, w_timeat=2, w_print=6)


# ---- building texts ---------------------------------------------------------------
def damage(tokens, how, position, filler):
    tokens = list(tokens)
    if not tokens:
        return tokens
    position %= len(tokens)
    if how == 'truncate':
        return tokens[:position]
    if how == 'delete':
        return tokens[:position] + tokens[position + 1:]
    if how == 'duplicate':
        return tokens[:position + 1] + tokens[position:]
    if how == 'misplaced':
        # a keyword that is only legal inside some construct, put in front of
        # the whole text: accepted only if the compiler believes it is still
        # inside such a construct left open by an earlier text
        return [MISPLACED[position % len(MISPLACED)]] + tokens
    return tokens[:position] + [filler] + tokens[position + 1:]


MISPLACED = ['break', 'return', 'end', 'stage', 'else', 'row', 'column',
             'with', 'as', 'default']


@st.composite
def text_items(draw):
    case = draw(gen.programs(PROFILE))
    tokens = printer.token_texts(printer.tokens(case['program']))
    how = draw(st.sampled_from(['valid', 'valid', 'truncate', 'truncate',
                                'delete', 'duplicate', 'replace',
                                'misplaced']))
    if how == 'valid':
        return {'text': ' '.join(tokens), 'how': how}
    position = draw(st.integers(0, 400))
    filler = draw(st.sampled_from(
        ['begin', 'end', '{', '}', '[', ']', 'set', 'repeat', 'define',
         'zzz', '"', '5', 'with', 'row']))
    return {'text': ' '.join(damage(tokens, how, position, filler)),
            'how': how}


def compile_once(parser, text):
    from bardolph.vm.instruction import Instruction
    try:
        ok = parser.parse(text)
    except Exception as ex:
        return ('raised', type(ex).__name__, '')
    if ok:
        return ('ok', '', Instruction.do_listing(parser.get_program()))
    return ('rejected', parser.get_errors(), '')


def check_compile_sequence(acc, items):
    from bardolph.parser.parse import Parser
    from verif.harness import World
    World([])
    shared = Parser()
    history = []
    invalid_before_valid = False
    seen_invalid = False
    from bardolph.vm.instruction import Instruction
    kept = []       # (index, program object handed out, its listing then)
    for index, item in enumerate(items):
        got = compile_once(shared, item['text'])
        for earlier, program, listing in kept:
            if Instruction.do_listing(program) != listing:
                acc.fail('compile-history:earlier-program-overwritten',
                         'the program returned for text #{} changed when '
                         'text #{} was compiled on the same Parser\n--- '
                         'texts ---\n{}'.format(
                             earlier, index, '\n=====\n'.join(
                                 i['text'] for i in items[:index + 1])),
                         {'kind': 'compile', 'items': items[:index + 1]})
                kept = []
                break
        if got[0] == 'ok':
            kept.append((index, shared.get_program(), got[2]))
        want = compile_once(Parser(), item['text'])
        history.append(item['how'] + ':' + got[0])
        if got[0] != 'ok':
            seen_invalid = True
        elif seen_invalid:
            invalid_before_valid = True
        if got != want:
            which = 'result' if got[0] != want[0] else (
                'errors' if got[1] != want[1] else 'listing')
            acc.fail('compile-history:{}:{}->{}'.format(
                which, want[0], got[0]),
                'text #{} compiled on a used Parser gave {} {!r}, a fresh '
                'Parser gives {} {!r}\n--- texts ---\n{}'.format(
                    index, got[0], got[1][:120], want[0], want[1][:120],
                    '\n=====\n'.join(i['text'] for i in items[:index + 1])),
                {'kind': 'compile', 'items': items[:index + 1]})
            break
    acc.case(key=repr([i['text'] for i in items]),
             nontrivial=invalid_before_valid,
             labels=['compile-seq'] + sorted(set(history)),
             sample={'kinds': history, 'first_text': items[0]['text'][:200]}
             if invalid_before_valid and len(acc.samples) < 2 else None)


# ---- executions --------------------------------------------------------------------
def reset_devices(world, population):
    for spec in population:
        device = world.lan.device(spec['label'])
        fresh = type(device)(world.lan, spec)
        device.color, device.power = fresh.color, fresh.power
        device.zones, device.cells = fresh.zones, fresh.cells


def pattern_tables(program):
    from bardolph.lib.time_pattern import TimePattern
    tables = []
    for inst in program:
        for param in (inst.param0, inst.param1):
            if isinstance(param, TimePattern):
                tables.append(frozenset(
                    (h, m) for h in range(24) for m in range(60)
                    if param.match(h, m)))
    return tables


def execute(world, job, population, stop_after=None, stdout=False):
    """One execution of job; returns (observable trace, stopped?, stdout)."""
    from verif.harness import RunResult
    reset_devices(world, population)
    del world.trace[:]
    count = [0]
    stopped = [False]

    def on_request(entry):
        world._on_request(entry)
        if entry[1].startswith('set_'):
            count[0] += 1
            if stop_after is not None and count[0] >= stop_after and \
                    not stopped[0]:
                stopped[0] = True
                job.request_stop()
    world.lan.on_request = on_request
    result = RunResult(world, job)
    result.compiled = True
    result.execute(60000)
    world.lan.on_request = world._on_request
    return observable(result.trace), stopped[0], result


# Statements that leave as much state behind as a script can (every
# register, the unit mode, the saved default colour), and statements that
# show that state at the very start of a run.
SOIL = ('units raw\nhue 11 saturation 22 brightness 33 kelvin 44 '
        'duration 55 time 66\nset default\nunits rgb\nred 7 green 8 blue 9\n'
        'units raw\n')


def reveal_text(population):
    lines = ['printf "{} {} {} {} {} {} {} {} {}\\n" hue saturation '
             'brightness kelvin duration time red green blue']
    for spec in population:
        if spec.get('kind') == 'matrix':
            # cells that are not staged show the saved default colour
            lines.append('set "{}" row 0'.format(spec['label']))
            break
    return '\n'.join(lines) + '\n'


def check_reexecution(acc, case, other, plan):
    from bardolph.vm.instruction import Instruction
    from verif.harness import World
    population = case['population']
    text = printer.to_text(case['program'])
    if case.get('probe'):
        # shows the state at the start of each run, soils it at the end
        text = reveal_text(population) + text + '\n' + SOIL
    other_text = printer.to_text(other['program'])
    # A World owns the process-wide injection container: finish with the
    # fresh one (the job compiled from the other text) before building ours.
    want_other = None
    if any(step[0] == 'reload' for step in plan):
        fresh_world = World(population)
        fresh = fresh_world.compile(other_text)
        if fresh.program is not None:
            want_other, _, fresh_result = execute(
                fresh_world, fresh, population)
            if fresh_result.aborted or fresh_result.budget_exhausted:
                want_other = None
    world = World(population)
    job = world.compile(text)
    payload = {'kind': 'rerun', 'case': case, 'other': other, 'plan': plan}
    if job.program is None:
        acc.case(key=text, labels=['rerun-uncompilable'])
        return
    listing = Instruction.do_listing(job.program)
    tables = pattern_tables(job.program)
    first, _, result = execute(world, job, population)
    if result.budget_exhausted or result.aborted:
        acc.case(key=text, labels=['rerun-skipped-abort-or-budget'])
        return
    labels = ['rerun']
    commands_in_first = len([e for e in first if e[0] == 'cmd'])
    after_stop = False
    previous_stopped = False
    for index, step in enumerate(plan):
        if step[0] == 'reload':
            if want_other is None:
                continue
            want = want_other
            job.load_string(other_text)
            world_trace, _, res = execute(world, job, population)
            labels.append('reload')
            if world_trace != want:
                acc.fail('reload-differs',
                         'after load_string the job ran differently from a '
                         'fresh job: {}'.format(_first_diff(want, world_trace)),
                         payload)
                break
            job.load_string(text)
            previous_stopped = False
            continue
        if step[0] == 'reload-rejected':
            # the job is given a text that does not compile: it has no
            # program then (like a fresh job given that text), not the one
            # it held before
            job.load_string(text + '\nrepeat 2 begin on all')
            labels.append('reload-rejected')
            if job.program is not None:
                acc.fail('rejected-text-left-a-program',
                         'after load_string of a rejected text the job '
                         'still holds a program ({} instructions)'.format(
                             len(job.program)), payload)
                break
            job.load_string(text)
            previous_stopped = False
            continue
        if step[0] == 'stop-when-idle':
            # a stop request that arrives when no run is in progress is aimed
            # at nothing: the next run is a complete one
            job.request_stop()
            labels.append('stop-request-between-runs')
            continue
        if step[0] == 'run-as-agent':
            # the way the job runner starts a run: a left-over stop request
            # is cleared first (Agent.execute), then the job is executed
            clear = getattr(job, 'clear_stop', None)
            if clear is not None:
                clear()
            labels.append('run-started-the-job-runner-way')
        stop_after = step[1] if step[0] == 'stop' else None
        if stop_after is not None and commands_in_first:
            # somewhere inside the run, however few commands it sends
            stop_after = 1 + (stop_after - 1) % commands_in_first
        trace, stopped, res = execute(world, job, population, stop_after)
        if stopped:
            labels.append('stopped-run')
            # Only device commands: what a stopped run still flushes to the
            # output sink (pending printf arguments) is not constrained.
            cmds = [e for e in trace if e[0] == 'cmd']
            if cmds != [e for e in first if e[0] == 'cmd'][:len(cmds)]:
                acc.fail('stopped-run-not-prefix',
                         'run #{} (stopped) diverged: {}'.format(
                             index + 2, _first_diff(first, trace)), payload)
                break
            previous_stopped = True
        else:
            if previous_stopped:
                after_stop = True
                labels.append('complete-after-stop')
            if trace != first:
                acc.fail('rerun-differs' + ('-after-stop' if previous_stopped
                                            else ''),
                         'run #{} differs from the first complete run: {}'
                         .format(index + 2, _first_diff(first, trace)),
                         payload)
                break
            previous_stopped = False
        if Instruction.do_listing(job.program) != listing:
            acc.fail('execution-changed-program',
                     'the compiled listing changed after run #{}'.format(
                         index + 2), payload)
            break
        if pattern_tables(job.program) != tables:
            acc.fail('execution-changed-time-pattern',
                     'a time-pattern operand matches different minutes after '
                     'run #{}'.format(index + 2), payload)
            break
    acc.case(key=text + repr(plan), nontrivial=after_stop, labels=labels,
             sample={'script': text[:400], 'plan': plan}
             if after_stop and len(acc.samples) < 4 else None)


def _first_diff(want, got):
    from verif.lang import ref
    for index, (a, b) in enumerate(zip(want, got)):
        if a != b:
            return 'event {}: {} vs {}'.format(
                index, ref.describe_event(a), ref.describe_event(b))
    return 'length {} vs {}'.format(len(want), len(got))


def run_with_stdout(world, job, population, stop_after=None):
    buffer = io.StringIO()
    with contextlib.redirect_stdout(buffer):
        trace, stopped, result = execute(world, job, population, stop_after)
    return trace, result.stdout, stopped, result


def check_job_sequence(acc, case_a, case_b, stop_after):
    from verif.harness import World
    population = case_b['population']
    text_a = printer.to_text(case_a['program'])
    text_b = printer.to_text(case_b['program'])
    if case_a.get('probe'):
        text_a = text_a + '\n' + SOIL
        text_b = reveal_text(population) + text_b
    alone_world = World(population, output='stdout')
    alone = alone_world.compile(text_b)
    payload = {'kind': 'jobs', 'a': case_a, 'b': case_b, 'stop': stop_after}
    if alone.program is None:
        acc.case(key=text_b, labels=['jobs-uncompilable'])
        return
    want_trace, want_out, _, res = run_with_stdout(
        alone_world, alone, population)
    if res.aborted or res.budget_exhausted:
        acc.case(key=text_b, labels=['jobs-skipped'])
        return
    world = World(population, output='stdout')
    job_a = world.compile(text_a)
    labels = ['jobs']
    if job_a.program is not None:
        _, out_a, stopped, _ = run_with_stdout(
            world, job_a, population, stop_after)
        labels.append('a-stopped' if stopped else 'a-complete')
        if out_a and not out_a.endswith('\n'):
            labels.append('a-left-line-open')
    job_b = world.compile(text_b)
    got_trace, got_out, _, _ = run_with_stdout(world, job_b, population)
    interesting = ('units' in text_a and 'assign' in text_a) or (
        'a-left-line-open' in labels)
    acc.case(key=text_a + '|' + text_b, nontrivial=interesting, labels=labels,
             sample={'job_a': text_a[:300], 'job_b': text_b[:300]}
             if interesting and len(acc.samples) < 5 else None)
    if got_trace != want_trace:
        acc.fail('job-carry-over:trace',
                 'job B after job A differs from B alone: {}'.format(
                     _first_diff(want_trace, got_trace)), payload)
    elif got_out != want_out:
        acc.fail('job-carry-over:stdout',
                 'stdout of job B after job A is {!r}, alone it is {!r}'
                 .format(got_out[:80], want_out[:80]), payload)


def plan(tier, seed_value):
    specs = []
    per = {'compile': 60, 'rerun': 60, 'jobs': 60}
    if tier == 'thorough':
        per = {'compile': 3000, 'rerun': 3000, 'jobs': 3000}
    for k in range(16):
        for kind, examples in per.items():
            specs.append({'kind': kind, 'seed': seed_value * 1000 + k,
                          'examples': examples})
    return specs


PLAN_STEP = st.one_of(
    st.just(['run']), st.just(['run']),
    st.tuples(st.just('stop'), st.integers(1, 6)).map(list),
    st.just(['stop-when-idle']), st.just(['run-as-agent']),
    st.just(['reload']), st.just(['reload-rejected']))


def run_shard(spec):
    acc = Acc()
    kind = spec['kind']
    if kind == 'compile':
        @seed(spec['seed'])
        @progbase.hyp_settings(spec['examples'])
        @given(st.lists(text_items(), min_size=2, max_size=6))
        def run(items):
            check_compile_sequence(acc, items)
        run()
    elif kind == 'rerun':
        @seed(spec['seed'])
        @progbase.hyp_settings(spec['examples'])
        @given(gen.programs(PROFILE), gen.programs(PROFILE),
               st.one_of(
                   st.lists(PLAN_STEP, min_size=1, max_size=3),
                   # a stopped run (or two), then a complete one
                   st.tuples(
                       st.lists(st.tuples(st.just('stop'), st.integers(1, 6))
                                .map(list), min_size=1, max_size=2),
                       st.lists(st.sampled_from(
                           [['run'], ['run-as-agent'], ['stop-when-idle']]),
                           min_size=1, max_size=2)).map(
                               lambda pair: pair[0] + pair[1] + [['run']]),
                   # every way of starting a run, with stop requests that
                   # arrive between the runs
                   st.lists(st.sampled_from(
                       [['run'], ['run-as-agent'], ['stop-when-idle']]),
                       min_size=3, max_size=6)),
               st.booleans())
        def run(case, other, steps, probe):
            if probe:
                case = dict(case, probe=True)
            check_reexecution(acc, case, other, [list(s) for s in steps])
        run()
    else:
        @seed(spec['seed'])
        @progbase.hyp_settings(spec['examples'])
        @given(gen.programs(PROFILE), gen.programs(PROFILE),
               st.sampled_from([None, None, 1, 1, 1, 2, 2, 3, 5]),
               st.booleans())
        def run(case_a, case_b, stop_after, probe):
            if probe:
                case_a = dict(case_a, probe=True)
            check_job_sequence(acc, case_a, case_b, stop_after)
        run()
    return acc


def replay(case):
    acc = Acc()
    if case['kind'] == 'compile':
        check_compile_sequence(acc, case['items'])
    elif case['kind'] == 'rerun':
        check_reexecution(acc, case['case'], case['other'], case['plan'])
    else:
        check_job_sequence(acc, case['a'], case['b'], case['stop'])
    return [(f['sig'], f['what']) for f in acc.failures.values()]
