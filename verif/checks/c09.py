"""C09 - a stop request ends a running script promptly in every state and is
never lost."""
import itertools

from hypothesis import given, seed, strategies as st

from verif import conc, env
from verif.checks import progbase
from verif.runner import Acc

ID = 'C09'
LEVEL = 'exploration'
RULE = (
    'Schedule exploration with the deterministic scheduler over the REAL '
    'JobControl, Agent, ScriptJob, Machine.run/stop/reset and '
    'lib.clock.Clock (threads yield before every source line of '
    'job_control.py, clock.py, script_job.py and Machine.run/stop/reset; '
    'virtual time). Scenario: a first job of a generated shape '
    '(straight-line, infinite repeat, timed with `time d`, `time at P` that '
    'does not match for hours), optionally a background job, a second job '
    'queued behind it; a client that, after a generated number of its own '
    'steps or a generated virtual pause, issues stop_job / stop_current / '
    'agent.request_stop / stop-all (clear_queue, stop_current, '
    'stop_background) - so the stop lands before the first instruction, '
    'between instructions, inside a delay, inside a time-of-day wait or as '
    'the script finishes - and in half the cases re-queues the stopped job '
    'object afterwards; tick length and per-command device work time are '
    'generated; schedules = generated preemptions + choices, plus ALL single '
    'preemptions (and pairs in the thorough tier) for fixed scenarios. '
    'Oracle: after the stop call returns, the job ends without virtual time '
    'passing the next tick (+ the command in progress), sends at most the '
    'command in progress, the next queued job runs its full command list '
    '(stop-all: nothing further starts, queue empty), a job started after '
    'the stop runs to completion, no deadlock and no step-limit (lost '
    'stop). Non-trivial = the stop was delivered while the job thread had '
    'started and not finished; labelled by where it landed. Distinct by '
    'scenario + schedule.')
ASSUMPTIONS = [
    '"Promptly" = bounded liveness: within one clock tick of virtual time '
    '(plus device work in progress) and within the step budget.',
    'A job counts as started once the add/spawn call that starts its thread '
    'has returned.',
]

POP = [{'label': 'L{}'.format(i), 'group': 'G', 'location': 'L'}
       for i in range(1, 4)]
SHAPES = {
    'straight': 'on "L1" off "L1" on "L1" off "L1" on "L1" off "L1"',
    'infinite': 'repeat begin on "L1" off "L1" end',
    'timed': 'time 2 on "L1" off "L1" on "L1" off "L1"',
    'timed-short': 'time 0.5 repeat 6 begin on "L1" off "L1" end',
    'time-of-day': 'time at 23:00 on "L1" off "L1"',
    'time-of-day-loop': 'repeat 3 begin time at 2*:15 or 22:*0 on "L1" end',
    'mixed': 'on "L1" time 1 off "L1" time at 9:1* on "L1" time 1 off "L1"',
}
FINITE = {'straight': 6, 'timed': 4, 'timed-short': 12}
SECOND = 'on "L2" off "L2" on "L2"'
BACKGROUND = 'repeat begin time 1 on "L3" off "L3" end'


@st.composite
def scenarios(draw, await_run_loop=False):
    shape = draw(st.sampled_from(sorted(SHAPES)))
    stop = draw(st.sampled_from(['stop_current', 'stop_job', 'agent_stop',
                                 'stop_all']))
    with_background = draw(st.integers(0, 3)) == 0
    delay = st.one_of(
        st.tuples(st.just('steps'), st.integers(0, 120)),
        st.tuples(st.just('pause'), st.sampled_from(
            [0.125, 0.25, 0.5, 1.0, 1.75, 2.5, 4.0]))).map(list)
    ops = [['add', 'first']]
    if with_background:
        ops.append(['spawn', 'bg'])
        if await_run_loop:
            ops.append(['await_running', 'bg'])
    queue_second = draw(st.booleans())
    if queue_second:
        ops.append(['add', 'second'])
    if await_run_loop:
        ops.append(['await_running', 'first'])
    ops.append(draw(delay))
    ops.append([stop] if stop != 'stop_job' else ['stop_job', 'first'])
    if not queue_second and draw(st.booleans()):
        ops.append(['add', 'second'])
    reuse = shape in FINITE and draw(st.booleans()) and stop != 'stop_all'
    if reuse and draw(st.integers(0, 2)) == 0:
        # the same job object is queued behind its own first run
        ops.insert(1, ['add', 'first', 'reuse'])
    elif reuse:
        ops.append(['pause', 3.0])
        ops.append(['add', 'first', 'reuse'])
    if with_background and stop != 'stop_all':
        ops.append(['pause', 2.0])
        ops.append(['stop_job', 'bg'])
    ops.append(['wait_idle', 40])
    return {
        'population': POP, 'shape': shape,
        'tick': draw(st.sampled_from([0.125, 0.25, 0.5, 1.0])),
        'work': {'set_power': draw(st.sampled_from([0, 0.125, 0.25, 0.75]))},
        'start': [7, 58, 30],
        'scripts': {'first': SHAPES[shape], 'second': SECOND,
                    'bg': BACKGROUND},
        'clients': [ops]}


@st.composite
def schedules(draw, max_step=900):
    preemptions = {}
    for _ in range(draw(st.integers(0, 5))):
        preemptions[str(draw(st.integers(1, max_step)))] = draw(
            st.integers(0, 4))
    return {'preemptions': preemptions,
            'choices': draw(st.lists(st.integers(0, 4), max_size=10))}


STEPS_AFTER_STOP = 8000     # a stopped system drains in a few hundred steps


def analyse(scenario, result):
    """([(sig, what)], labels)"""
    sched = result.sched
    log = sched.log
    problems = []
    labels = []
    if result.outcome == 'harness-timeout':
        raise env.HarnessError('scheduler timed out: {}'.format(sched.detail))
    ops = scenario['clients'][0]
    stop_kinds = ('stop_current', 'stop_job', 'agent_stop', 'stop_all')
    stop_ret = next((i for i, e in enumerate(log) if e[3] == 'ret'
                     and e[5][0] in stop_kinds
                     and (e[5][0] != 'stop_job' or e[5][1] == 'first')), None)
    stop_call = next((i for i, e in enumerate(log) if e[3] == 'call'
                      and e[5][0] in stop_kinds
                      and (e[5][0] != 'stop_job' or e[5][1] == 'first')), None)
    stop_kind = next((op[0] for op in ops if op[0] in stop_kinds
                      and (op[0] != 'stop_job' or op[1] == 'first')), None)
    first_start = next((i for i, e in enumerate(log)
                        if e[3] == 'job-start' and e[4] == 'first'), None)
    first_end = next((i for i, e in enumerate(log)
                      if e[3] == 'job-end' and e[4] == 'first'), None)
    if stop_ret is None:
        if result.outcome == 'step-limit':
            # the step budget ran out before the stop was even issued (a busy
            # script and a long pause): inconclusive, not a violation
            return problems, ['inconclusive-step-budget']
        if result.outcome != 'finished':
            problems.append((result.outcome + ':no-stop', str(sched.detail)))
        return problems, ['no-stop']
    t_stop = log[stop_ret][0]
    # where did the stop land?
    if first_start is None or first_start > stop_ret:
        landed = 'before-job-thread-ran'
    elif first_end is not None and first_end < stop_call:
        landed = 'after-job-finished'
    else:
        inside = 'instructions'
        depth = 0
        for event in log[:stop_call]:
            if event[2] == log[first_start][2]:
                if event[3] == 'pause-call':
                    inside = 'in-delay'
                elif event[3] == 'until-call':
                    inside = 'in-time-of-day-wait'
                elif event[3] in ('pause-ret', 'until-ret'):
                    inside = 'instructions'
        landed = inside
    run_loop = None
    if first_start is not None:
        run_loop = next((i for i, e in enumerate(log) if i > first_start
                         and e[2] == log[first_start][2]
                         and e[3] == 'clock-reset'), None)
    if landed not in ('before-job-thread-ran', 'after-job-finished') and (
            run_loop is None or run_loop > stop_ret):
        landed = 'before-run-loop'
    if landed == 'before-job-thread-ran':
        landed = 'before-run-loop'
    labels.append('landed:' + landed)
    if result.outcome == 'step-limit' and \
            sched.steps - log[stop_ret][1] < STEPS_AFTER_STOP:
        # a busy script used the step budget up before the stop; what is
        # left is too little to tell a lost stop from a slow one
        return problems, labels + ['inconclusive-step-budget']
    if result.outcome != 'finished':
        where = {name: (state, waiting, line) for name, (state, waiting, line)
                 in (sched.detail or {}).items()}
        problems.append(('{}:{}'.format(result.outcome, landed),
                         '{} after a stop that landed {}: {}'.format(
                             result.outcome, landed, where)))
        return problems, labels + ['abnormal-end']
    labels.append('stop:' + stop_kind)
    labels.append('shape:' + scenario['shape'])
    targeted = stop_kind in ('stop_all',) or landed != 'after-job-finished'
    # was the job really the target? stop_current / stop_job hit the active
    # job only; if 'first' had already finished they hit 'second' instead.
    first_thread = log[first_start][2] if first_start is not None else None
    effective = landed not in ('after-job-finished',)
    if effective and first_end is not None:
        # 1. promptness
        t_end = log[first_end][0]
        slack = 2 * scenario['tick'] + scenario['work'].get(
            'set_power', 0) + 1e-9
        if t_end - t_stop > slack and first_end > stop_ret:
            problems.append(('not-prompt:' + landed,
                             'the stopped job ended {} s after the stop '
                             'request returned (tick {} s)'.format(
                                 t_end - t_stop, scenario['tick'])))
        # 2. at most the command in progress
        later = [e for e in log[stop_ret:] if e[3] == 'cmd'
                 and e[2] == first_thread]
        if len(later) > 1:
            problems.append(('commands-after-stop:' + landed,
                             'the stopped job sent {} commands after the '
                             'stop request returned'.format(len(later))))
    # 3. the second job
    delivered_at = next((i for i, e in enumerate(log)
                         if i > stop_call and e[3] == 'stop-delivered'), None)
    delivered_to = log[delivered_at][4] if delivered_at is not None else None
    second_cmds = [e for e in log if e[3] == 'cmd' and e[4] == 'L2']
    second_added = [i for i, e in enumerate(log) if e[3] == 'call'
                    and e[5][:2] == ['add', 'second']]
    if second_added:
        second_start = next((i for i, e in enumerate(log)
                             if e[3] == 'job-start' and e[4] == 'second'),
                            None)
        snapshot = next((e[4] for e in log
                         if e[3] == 'stop-all-snapshot'), None)
        cleared = (stop_kind == 'stop_all' and second_added[0] < stop_call
                   and (second_start is None or second_start > stop_call)
                   and snapshot != 'second')
        running_at_stop_all = stop_kind == 'stop_all' and (
            snapshot == 'second' or (second_start is not None and
                                     second_start < stop_call))
        if running_at_stop_all and snapshot == 'second':
            # 'second' had already been taken off the queue: it is the
            # current job and stop-all must stop it like any current job
            second_thread = log[second_start][2] if second_start is not None \
                else None
            entered = next((i for i, e in enumerate(log)
                            if second_thread is not None
                            and e[2] == second_thread
                            and e[3] == 'clock-reset'), None)
            where = 'before-run-loop' if (
                entered is None or entered > stop_ret) else 'running'
            after = [e for e in log[stop_ret:] if e[3] == 'cmd'
                     and e[4] == 'L2']
            if len(after) > 1:
                problems.append(('commands-after-stop:' + where,
                                 'the job that was current at stop-all sent '
                                 '{} commands after it'.format(len(after))))
        if cleared:
            if second_start is not None:
                problems.append(('started-after-stop-all',
                                 'a job that was waiting in the queue when '
                                 'stop-all was requested started afterwards'))
        elif running_at_stop_all:
            pass        # it was the current job by then: stopped, not cleared
        elif stop_kind in ('stop_current', 'agent_stop') and (
                next((e[4] for e in log if e[3] == 'stop-target'), None)
                == 'second' or delivered_to == 'second'
                or (landed == 'after-job-finished'
                    and second_start is not None
                    and second_start < stop_ret)):
            # the first job was over: the request legitimately hit the job
            # behind it, which was the current one by then - "by then"
            # being the moment the controller picked it, somewhere between
            # the call and its return
            labels.append('stop-hit-second-job')
            if delivered_to == 'second' and (
                    first_end is None or first_end > delivered_at):
                problems.append((
                    'stop-hit-a-job-that-was-not-current',
                    'the request was handed to the job behind the running '
                    'one while that one had not ended'))
        elif len(second_cmds) != 3:
            problems.append(('next-job-incomplete',
                             'the job behind the stopped one sent {} of its '
                             '3 commands'.format(len(second_cmds))))
    # 4. re-execution of the stopped job object
    reuse = [i for i, e in enumerate(log) if e[3] == 'ret'
             and e[5][0] == 'add' and e[5][-1] == 'reuse']
    if reuse:
        rerun_start = next((i for i, e in enumerate(log) if i > reuse[0] - 200
                            and e[3] == 'job-start' and e[4] == 'first'
                            and i > (first_end or 0)), None)
        rerun_cmds = [e for i, e in enumerate(log) if rerun_start is not None
                      and i > rerun_start and e[3] == 'cmd' and e[4] == 'L1']
        want = FINITE[scenario['shape']]
        labels.append('re-executed')
        # queued behind its own first run, the second run can itself be what
        # the request was aimed at: the agent that agent_stop got hold of
        # ran it, or stop_current / stop_job returned when the first run
        # was over
        behind = reuse[0] < stop_call
        stop_threads = getattr(result, 'stop_threads', [])
        if behind and rerun_start is not None and (
                log[rerun_start][2] in stop_threads or (
                    stop_kind != 'agent_stop' and
                    (first_end is None or first_end < stop_ret))):
            labels.append('stop-may-target-rerun')
        elif behind and stop_kind == 'agent_stop' and first_start is not None \
                and stop_threads and stop_threads[0] is None:
            labels.append('stop-may-target-rerun')  # agent not started yet
        elif rerun_start is None or len(rerun_cmds) != want:
            problems.append(('rerun-after-stop-incomplete',
                             'the stopped job, queued again, sent {} of its '
                             '{} commands'.format(len(rerun_cmds), want)))
    if result.control.has_jobs():
        problems.append(('not-drained', 'has_jobs() is still true at the end'))
    for event in log:
        if event[3] == 'client-exception':
            problems.append(('client-exception', str(event[5])))
    return problems, labels


def check(acc, scenario, schedule, label='random'):
    preemptions = {int(k): v for k, v in schedule['preemptions'].items()}
    result = conc.run(scenario, preemptions, list(schedule['choices']),
                      step_limit=40000,
                      line_switches=schedule.get('line_switches'))
    problems, labels = analyse(scenario, result)
    nontrivial = any(l.startswith('landed:') and l not in (
        'landed:before-run-loop', 'landed:after-job-finished')
        for l in labels)
    acc.case(key=repr((scenario['clients'], scenario['shape'],
                       scenario['tick'], scenario['work'], schedule)),
             nontrivial=nontrivial, labels=[label] + labels,
             sample={'first_script': scenario['scripts']['first'],
                     'client': scenario['clients'][0],
                     'tick': scenario['tick'], 'schedule': schedule,
                     'labels': labels}
             if nontrivial and len(acc.samples) < 3 else None)
    acc.extra['scheduler_steps'] = acc.extra.get('scheduler_steps', 0) + \
        result.sched.steps
    for sig, what in problems[:1]:
        acc.fail(sig, '{}\nfirst script: {}\nclient: {}\ntick {} work {}\n'
                 'schedule {}'.format(
                     what, scenario['scripts']['first'],
                     scenario['clients'][0], scenario['tick'],
                     scenario['work'], schedule),
                 {'kind': 'schedule', 'scenario': scenario,
                  'schedule': schedule})
    return result


def fixed_scenarios():
    out = []
    for shape, stop, delay in (
            ('straight', 'stop_current', ['steps', 0]),
            ('infinite', 'stop_job', ['steps', 20]),
            ('timed', 'stop_current', ['pause', 0.5]),
            ('time-of-day', 'stop_all', ['pause', 1.0]),
            ('timed-short', 'agent_stop', ['pause', 1.75])):
        ops = [['add', 'first'], ['add', 'second'],
               ['await_running', 'first'], delay,
               [stop] if stop != 'stop_job' else ['stop_job', 'first'],
               ['wait_idle', 40]]
        out.append({'population': POP, 'shape': shape, 'tick': 0.25,
                    'work': {'set_power': 0.125}, 'start': [7, 58, 30],
                    'scripts': {'first': SHAPES[shape], 'second': SECOND,
                                'bg': BACKGROUND},
                    'clients': [ops]})
    # the stop races with the end of a short script, whose job object is then
    # run again: that second run was never a stop target
    for stop in ('agent_stop', 'stop_current', 'stop_job', 'behind'):
        ops = [['add', 'first'], ['add', 'first', 'reuse'], ['steps', 90],
               ['agent_stop'], ['wait_idle', 40]] if stop == 'behind' else \
              [['add', 'first'], ['steps', 0],
               [stop] if stop != 'stop_job' else ['stop_job', 'first'],
               ['pause', 3.0], ['add', 'first', 'reuse'], ['wait_idle', 40]]
        out.append({'population': POP, 'shape': 'straight', 'tick': 0.25,
                    'work': {'set_power': 0}, 'start': [7, 58, 30],
                    'scripts': {'first': SHAPES['straight'], 'second': SECOND,
                                'bg': BACKGROUND},
                    'clients': [ops]})
    # stop-all while another job waits in the queue: whatever the requester
    # does first, the waiting job must not get to run
    ops = [['add', 'first'], ['add', 'second'], ['await_running', 'first'],
           ['steps', 10], ['stop_all'], ['wait_idle', 40]]
    out.append({'population': POP, 'shape': 'infinite', 'tick': 0.25,
                'work': {'set_power': 0}, 'start': [7, 58, 30],
                'scripts': {'first': SHAPES['infinite'], 'second': SECOND,
                            'bg': BACKGROUND},
                'clients': [ops]})
    return out


RACE_WITH_END = (5, 6, 7, 8)     # indexes in fixed_scenarios()
QUICK_ENUMERATED = RACE_WITH_END + (9, 2)    # 2: a stop inside a timed delay


def enumerate_fixed(acc, index, part, parts, depth):
    scenario = fixed_scenarios()[index]
    base = check(acc, scenario, {'preemptions': {}, 'choices': []},
                 'enumerated')
    steps = min(base.sched.steps, 1500)
    count = 0
    for number, (s, t) in enumerate(
            (s, t) for s in range(1, steps + 1) for t in range(3)):
        if number % parts != part:
            continue
        check(acc, scenario, {'preemptions': {str(s): t}, 'choices': []},
              'enumerated')
        count += 1
    acc.extra['enumerated_schedules'] = acc.extra.get(
        'enumerated_schedules', 0) + count


def enumerate_tail(acc, index, part, parts, window):
    """Two preemptions: the client is interrupted at each step of its stop
    call in favour of the job thread, which is in turn interrupted at each
    of the `window` steps that follow the end of the script (its completion
    handling) in favour of the client."""
    scenario = fixed_scenarios()[index]
    base = check(acc, scenario, {'preemptions': {}, 'choices': []},
                 'enumerated')
    log = base.sched.log
    call = next(e[1] for e in log if e[3] == 'call' and e[5][0] in (
        'agent_stop', 'stop_current', 'stop_job'))
    ret = next(e[1] for e in log if e[3] == 'ret' and e[5][0] in (
        'agent_stop', 'stop_current', 'stop_job'))
    count = 0
    number = 0
    for s1 in range(call, ret + 1):
        first = check(acc, scenario, {'preemptions': {str(s1): 1},
                                      'choices': []}, 'enumerated')
        end = next((e[1] for e in first.sched.log if e[3] == 'job-end'
                    and e[1] > s1), None)
        if end is None:
            continue
        for s2 in range(end, end + window):
            number += 1
            if number % parts != part:
                continue
            check(acc, scenario, {'preemptions': {str(s1): 1, str(s2): 0},
                                  'choices': []}, 'enumerated')
            count += 1
    acc.extra['enumerated_schedules'] = acc.extra.get(
        'enumerated_schedules', 0) + count


# ---- a stop aimed at the job the controller has just made current ---------------------
def fresh_scenario(stop):
    return {'population': POP, 'shape': 'straight', 'tick': 0.25,
            'work': {'set_power': 0.125}, 'start': [7, 58, 30],
            'scripts': {'first': 'on "L1"', 'second': SHAPES['straight']
                        .replace('L1', 'L2'), 'bg': BACKGROUND},
            'clients': [[['add', 'first'], ['add', 'second'],
                         ['await_current', 'second'], [stop],
                         ['wait_idle', 40]]]}


def check_fresh(acc, stop, schedule):
    """Once the controller reports `second` as running, a stop-current /
    stop-all stops it: at most the command in progress is still sent."""
    scenario = fresh_scenario(stop)
    preemptions = {int(k): v for k, v in schedule['preemptions'].items()}
    result = conc.run(scenario, preemptions, list(schedule['choices']),
                      step_limit=40000)
    log = result.sched.log
    if result.outcome == 'harness-timeout':
        raise env.HarnessError(str(result.sched.detail))
    seen = next((e for e in log if e[3] == 'ret' and
                 e[5][0] == 'await_current'), None)
    stop_ret = next((i for i, e in enumerate(log) if e[3] == 'ret'
                     and e[5][0] == stop), None)
    inside = [p for p in result.sched.preemptions_taken
              if p[3] and p[3][0] == 'job_control.py']
    acc.case(key=repr(('fresh', stop, schedule)), nontrivial=bool(inside),
             labels=['enumerated', 'stop-on-job-just-made-current',
                     'stop:' + stop])
    if result.outcome != 'finished' or seen is None or seen[6] is not True \
            or stop_ret is None:
        if result.outcome not in ('finished', 'step-limit'):
            acc.fail('fresh:' + result.outcome, str(result.sched.detail),
                     {'kind': 'fresh', 'stop': stop, 'schedule': schedule})
        return result
    later = [e for e in log[stop_ret:] if e[3] == 'cmd' and e[4] == 'L2']
    if len(later) > 1:
        acc.fail('stop-lost-on-job-just-made-current',
                 'the controller reported `second` as running, {} was then '
                 'called (returned {!r}), and `second` still sent {} more '
                 'commands\nschedule {}'.format(
                     stop, log[stop_ret][6], len(later), schedule),
                 {'kind': 'fresh', 'stop': stop, 'schedule': schedule})
    return result


def enumerate_fresh(acc, stop, part, parts):
    base = check_fresh(acc, stop, {'preemptions': {}, 'choices': []})
    # the steps in which the first job's thread hands over to the second
    end = next(e[1] for e in base.sched.log if e[3] == 'job-end')
    count = 0
    for number, (s, t) in enumerate(
            (s, t) for s in range(end - 10, end + 90) for t in range(3)):
        if number % parts != part:
            continue
        check_fresh(acc, stop, {'preemptions': {str(s): t}, 'choices': []})
        count += 1
    acc.extra['enumerated_schedules'] = acc.extra.get(
        'enumerated_schedules', 0) + count


def plan(tier, seed_value):
    specs = []
    per = 2500 if tier == 'thorough' else 300
    for k in range(16):
        specs.append({'kind': 'random', 'seed': seed_value * 1000 + k,
                      'examples': per})
    for index in range(len(fixed_scenarios())):
        if tier == 'thorough' or index in QUICK_ENUMERATED:
            for part in range(8):
                specs.append({'kind': 'enumerate', 'index': index,
                              'part': part, 'parts': 8, 'depth': 1})
    for stop in ('stop_current', 'stop_all', 'agent_stop'):
        for part in range(4):
            specs.append({'kind': 'fresh', 'stop': stop, 'part': part,
                          'parts': 4})
    for index in RACE_WITH_END:
        for part in range(4):
            specs.append({'kind': 'tail', 'index': index, 'part': part,
                          'parts': 4,
                          'window': 120 if tier == 'thorough' else 50})
    return specs


def run_shard(spec):
    acc = Acc()
    if spec['kind'] == 'fresh':
        enumerate_fresh(acc, spec['stop'], spec['part'], spec['parts'])
        return acc
    if spec['kind'] == 'tail':
        enumerate_tail(acc, spec['index'], spec['part'], spec['parts'],
                       spec['window'])
        return acc
    if spec['kind'] == 'enumerate':
        enumerate_fixed(acc, spec['index'], spec['part'], spec['parts'],
                        spec['depth'])
        return acc

    from verif import runner
    avoid = 'stop_before_run_loop' in runner.avoid_flags(ID)
    acc.extra['avoided_known'] = sorted(runner.avoid_flags(ID))

    @seed(spec['seed'])
    @progbase.hyp_settings(spec['examples'])
    @given(scenarios(avoid), schedules())
    def run(scenario, schedule):
        check(acc, scenario, schedule)
    run()
    return acc


def replay(case):
    acc = Acc()
    if case.get('kind') == 'fresh':
        check_fresh(acc, case['stop'], case['schedule'])
        return [(f['sig'], f['what']) for f in acc.failures.values()]
    check(acc, case['scenario'], case['schedule'], 'replay')
    return [(f['sig'], f['what']) for f in acc.failures.values()]
