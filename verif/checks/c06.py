"""C06 - the compiler always ends in accept or a line-numbered rejection,
never a crash; accepted scripts never hit an internal VM fault."""
import os
import re
import signal
import traceback

from hypothesis import given, seed, strategies as st

from verif import env  # noqa: F401
from verif.checks import progbase
from verif.lang import gen, printer
from verif.runner import Acc

ID = 'C06'
LEVEL = 'exploration'
RULE = (
    'Totality / validity fuzzing with the oracle inside the target. Inputs: '
    '(1) token soup over the complete vocabulary (every keyword, register, '
    'abbreviation, operator, mark, number shapes, names including the '
    'compiler\'s internal token-class names, strings such as "{" "[" "-" "", '
    'valid and invalid time-pattern shapes), length 0..60; (2) mutations of '
    'valid generated scripts (delete / duplicate / swap / replace tokens, '
    'truncate, unbalance); (3) raw noise (arbitrary text, latin-1 bytes); '
    '(5) unmutated control-flow-heavy generated programs, which must be '
    'accepted and executable; (4) rule breakers by construction (top-level break, assign to / second '
    'define of a macro, use of an undefined name, routine defined inside a '
    'routine, removed end / } / ] / ), malformed time pattern) which MUST be '
    'rejected; the thorough tier adds atheris coverage-guided campaigns on '
    'the same target. Oracle: Parser.parse returns within a token-step and '
    'time bound without raising; a falsy result comes with a "Line <n>:" '
    'message, ScriptJob.program is None and execute() sends nothing; a '
    'truthy result is run on the budgeted VM and must not hit an internal '
    'fault (op-code missing from the dispatch table, JSR to a routine the '
    'loader lacks, evaluation- or call-stack underflow, pc outside the '
    'image). Non-trivial = the compiler generated >= 1 instruction before '
    'accepting or rejecting; distinct by token-type sequence.')
ASSUMPTIONS = [
    'Run-time faults a script can legitimately cause (a string used as a '
    'number, an unset variable, division by zero, index out of the device) '
    'are not internal faults.',
    'Undecodable bytes in a file are out of scope (the property is about '
    'texts).',
]

KEYWORDS = ('all and as assign at begin break breakpoint column cycle default '
            'define else end from get group if in location logical not off on '
            'or print printf println pause raw row repeat return rgb set '
            'stage to units while with wait zone').split()
REGISTERS = ('hue saturation brightness kelvin red green blue duration time '
             'H S B K').split()
MARKS = list('{}[]()+-*/%^<>#:') + ['==', '<=', '>=', '!=', '=', '!', ',', '.',
                                    ';', '&', '|']
NUMBERS = ['0', '5', '12', '.5', '5.', '1e3', '007', '3.25', '65535', '-1',
           '99999999999', '1.2.3', '9' * 4301, '1' * 5000 + '.5',
           '0.' + '3' * 400]
NAMES = ['x', 'y', 'f', 'r', 'lt', 'number', 'eof', 'mark', 'error', 'unknown',
         'name', 'register', 'compare', 'literal_string', 'time_pattern',
         'syntax_error', 'null', 'Set', 'REPEAT', 'Hue', '_a', 'a1', 'round',
         'sqrt', 'random', 'coin']
STRINGS = ['"A"', '"{"', '"["', '"-"', '"("', '""', '"not"', '"a b"', '"{}"',
           '"{} {}"', '"{x}"', '"{0} {hue}"', '"{"', '"}"', '"{:d}"', '"%"',
           '"#"', '"and"', '"', '"^"', '"+"', '"*"', '"<"', '"=="', '"or"',
           '")"', '"]"', '"begin"', '"end"', '"all"', '"default"']
PATTERNS = ['8:00', '*:30', '1*:*5', '24:00', '12:60', '1:5', '*:*', '**:00',
            '8:00:00', '-8:00', '8:', ':00', '12:3*4']
VOCAB = KEYWORDS + REGISTERS + MARKS + NUMBERS + NAMES + STRINGS + PATTERNS
FILLERS = ['begin', 'end', '{', '}', '[', ']', '(', ')', 'define', 'repeat',
           'break', 'return', 'with', 'set', 'stage', '"', 'zzz', 'number',
           'eof', '-', 'and', 'or', 'as', 'in', 'time', 'at', '8:00', '25:00']

POP = [
    {'label': 'A', 'group': 'G1', 'location': 'L1', 'kind': 'plain'},
    {'label': 'x', 'group': 'G1', 'location': 'L1', 'kind': 'mz', 'zones': 8},
    {'label': 'y', 'group': 'G2', 'location': 'L1', 'kind': 'matrix',
     'height': 3, 'width': 3},
]
PROFILE = gen.profile(max_top=6, max_block=3, max_depth=2, max_pop=3,
                      prelude_routines=2)


# valid programs dense in control flow (must be accepted AND executable)
CONTROL_PROFILE = gen.profile(
    w_if=10, w_repeat=10, w_break=6, w_return=8, w_call=8, w_routine=4,
    w_action=3, w_setreg=2, w_assign=3, w_print=2, w_get=0, w_timeat=1,
    w_units=0, w_matrix=1, w_zone=1, w_wait=0, w_time=0, w_define=1,
    max_depth=4, max_top=8, max_block=3, max_pop=3, prelude_routines=3,
    routine_in_blocks=True)


class Hang(BaseException):    # not swallowed by the catch-alls of the code under test
    pass


_watch = {'seen': None, 'interval': 30}


def _arm(seconds):
    """CPU-time watchdog: fires only when `seconds` of this process's own
    CPU time pass without one VM instruction completing."""
    from verif import harness
    _watch['seen'] = harness.PROGRESS[0]
    _watch['interval'] = seconds
    signal.setitimer(signal.ITIMER_VIRTUAL, seconds)


def _alarm(signum, frame):
    from verif import harness
    if harness.PROGRESS[0] != _watch['seen']:
        # instructions are still being completed: slow (a 255 x 255 matrix
        # per pass of an endless loop, say), not stuck; the instruction
        # budget ends such a run
        _watch['seen'] = harness.PROGRESS[0]
        signal.setitimer(signal.ITIMER_VIRTUAL, _watch['interval'])
        return
    raise Hang()


def bucket(ex):
    """(exception type, innermost bardolph frame) -> one root cause."""
    if isinstance(ex, RecursionError):
        return 'RecursionError'     # one root cause wherever it surfaces
    frames = traceback.extract_tb(ex.__traceback__)
    where = 'unknown'
    for frame in frames:
        if os.sep + 'bardolph' + os.sep in frame.filename or \
                os.sep + 'web' + os.sep in frame.filename:
            where = '{}:{}'.format(os.path.basename(frame.filename),
                                   frame.name)
    return '{}@{}'.format(type(ex).__name__, where)


INTERNAL = (
    (re.compile(r'OpCode\.'), 'unknown-op-code'),
    (re.compile(r"has no attribute 'get_address'"), 'missing-routine'),
    (re.compile(r'eval stack underflow|pop from an empty deque'),
     'eval-stack-underflow'),
    (re.compile(r"'NoneType' object has no attribute '(parent|vars|params|"
                r"globals|return_addr|constants)'"), 'call-stack-underflow'),
    (re.compile(r"at instruction None"), 'pc-outside-image'),
    # the VM dereferenced a register or structure that the script's own
    # commands never set up (None is not a value a script can produce there)
    (re.compile(r"'NoneType' object has no attribute '(\w+)'"),
     'none-dereferenced'),
    # a KeyError whose key is one of the VM's own enums: a dispatch table
    # has no entry for what the compiler emitted
    (re.compile(r"due to <\w+\.\w+: [^>]*>"), 'dispatch-on-enum'),
    (re.compile(r"'LoopFrame' object has no attribute|'StackFrame' object "
                r"has no attribute"), 'frame-confusion'),
)


def classify_abort(message):
    for pattern, name in INTERNAL:
        found = pattern.search(message)
        if found:
            if name == 'dispatch-on-enum':
                name += ':' + found.group(0)[8:].split(':')[0]
            elif name == 'none-dereferenced':
                name += ':' + found.group(1)
            return name
    return None


_world = None


def world():
    from verif.harness import shared_world
    return shared_world('c06', POP)


def token_types(text):
    from bardolph.parser.lex import Lex
    try:
        return ' '.join(t.token_type.name for t in Lex(text).tokens())
    except Exception:
        return 'lex-error'


def evaluate(acc, text, must_reject=None, label='soup'):
    """The fuzz target. Records at most one failure per call."""
    from bardolph.controller.script_job import ScriptJob
    from bardolph.parser.parse import Parser
    w = world()
    del w.log.records[:]
    case = {'kind': 'text', 'text': text, 'must_reject': must_reject}
    parser = Parser()
    steps = [0]
    original = parser.next_token
    limit = 50 * (len(text.split()) + len(text) // 2 + 10)

    def counted():
        steps[0] += 1
        if steps[0] > limit:
            raise Hang()
        return original()
    parser.next_token = counted
    # CPU time of this process, not wall-clock time: a loaded host must not
    # turn a slow case into a 'hang'
    signal.signal(signal.SIGVTALRM, _alarm)
    _arm(30)
    try:
        ok = parser.parse(text)
    except Hang:
        signal.setitimer(signal.ITIMER_VIRTUAL, 0)
        acc.case(key=text, labels=[label, 'hang'])
        acc.fail('compile-does-not-finish',
                 'the compiler does not finish on {!r}'.format(text[:200]),
                 case)
        return
    except Exception as ex:
        signal.setitimer(signal.ITIMER_VIRTUAL, 0)
        acc.case(key=text, labels=[label, 'crash'])
        acc.fail('compile-crash:' + bucket(ex),
                 'compiler raised {!r} on {!r}'.format(ex, text[:200]), case)
        return
    finally:
        signal.setitimer(signal.ITIMER_VIRTUAL, 0)
    program_len = len(parser.get_program())
    key = token_types(text)
    nontrivial = program_len >= 1
    if not ok:
        errors = parser.get_errors()
        acc.case(key=key, nontrivial=nontrivial, labels=[label, 'rejected'],
                 sample={'text': text[:120], 'result': 'rejected',
                         'message': errors.strip()[:80]}
                 if nontrivial and len(acc.samples) < 2 else None)
        # "Line 0" is not a line of the text
        if not re.search(r'Line [1-9]\d*:', errors):
            acc.fail('rejected-without-line',
                     '{!r} was rejected with message {!r}, which names no '
                     'line'.format(text[:200], errors[:80]), case)
            return
        job = ScriptJob.from_string(text)
        if job.program is not None:
            acc.fail('rejected-but-program',
                     'ScriptJob kept a program for rejected text {!r}'
                     .format(text[:200]), case)
            return
        before = len(w.lan.attempts)
        job.execute()
        if len(w.lan.attempts) != before:
            acc.fail('rejected-but-ran', 'a rejected text sent commands: {!r}'
                     .format(text[:200]), case)
        return
    if must_reject:
        acc.case(key=key, nontrivial=True, labels=[label, 'wrongly-accepted'])
        acc.fail('accepted:' + must_reject,
                 '{!r} breaks a documented rule ({}) but was accepted'.format(
                     text[:300], must_reject), case)
        return
    # accepted: execute on the budgeted machine
    del w.trace[:]
    _arm(90)
    try:
        result = w.run(text, budget=5000)
    except Hang:
        acc.case(key=key, labels=[label, 'run-hang'])
        acc.fail('run-does-not-finish', 'an accepted script hangs the '
                 'loader/VM outside the instruction loop: {!r}'.format(
                     text[:200]), case)
        return
    except Exception as ex:
        acc.case(key=key, labels=[label, 'run-crash'])
        acc.fail('run-crash:' + bucket(ex), 'loader/VM raised {!r} on '
                 'accepted {!r}'.format(ex, text[:200]), case)
        return
    finally:
        signal.setitimer(signal.ITIMER_VIRTUAL, 0)
    labels = [label, 'accepted']
    internal = None
    if result.bad_pc is not None:
        internal = 'pc-outside-image'
    if result.aborted and internal is None:
        internal = classify_abort(result.aborted)
        labels.append('aborted-internal' if internal else 'aborted-script-fault')
    acc.case(key=key, nontrivial=nontrivial, labels=labels,
             sample={'text': text[:120], 'result': 'accepted',
                     'instructions': program_len}
             if nontrivial and len(acc.samples) < 4 else None)
    if not result.compiled:
        acc.fail('accepted-then-rejected', 'Parser accepted but ScriptJob '
                 'rejected {!r}'.format(text[:200]), case)
    elif internal:
        acc.fail('vm-internal:' + internal,
                 'accepted script {!r} hit an internal fault: {} {}'.format(
                     text[:300], result.aborted,
                     '' if result.bad_pc is None
                     else 'pc = {}'.format(result.bad_pc)), case)


def evaluate_file(acc, data):
    """The same front end, fed a file of arbitrary bytes (what lsrun and the
    web server do): it may reject the file, it may not raise."""
    from bardolph.parser.parse import Parser
    world()
    directory = env.work_dir(ID, 'files-{}'.format(os.getpid()))
    path = os.path.join(directory, 'noise.ls')
    with open(path, 'wb') as dst:
        dst.write(data)
    try:
        text = data.decode()
        decodable = True
    except UnicodeDecodeError:
        decodable = False
    acc.case(key=repr(data), nontrivial=not decodable,
             labels=['file', 'undecodable' if not decodable else 'decodable'],
             sample={'bytes': repr(data[:40])}
             if not decodable and len(acc.samples) < 2 else None)
    parser = Parser()
    try:
        ok = parser.parse_file(path)
    except Exception as ex:
        acc.fail('file-crash:' + bucket(ex),
                 'parse_file raised {!r} on a file holding {!r}'.format(
                     ex, data[:60]), {'kind': 'file', 'hex': data.hex()})
        return
    if ok and not decodable:
        acc.fail('file-accepted-undecodable',
                 'a file that is not text was accepted: {!r}'.format(
                     data[:60]), {'kind': 'file', 'hex': data.hex()})


# ---- generators ---------------------------------------------------------------------
soup = st.lists(st.sampled_from(VOCAB), min_size=0, max_size=60).map(' '.join)


@st.composite
def mutated(draw):
    case = draw(gen.programs(PROFILE))
    tokens = printer.token_texts(printer.tokens(case['program']))
    for _ in range(draw(st.integers(1, 3))):
        if not tokens:
            break
        how = draw(st.sampled_from(['delete', 'duplicate', 'swap', 'replace',
                                    'truncate', 'insert']))
        i = draw(st.integers(0, len(tokens) - 1))
        if how == 'delete':
            del tokens[i]
        elif how == 'duplicate':
            tokens.insert(i, tokens[i])
        elif how == 'swap':
            j = draw(st.integers(0, len(tokens) - 1))
            tokens[i], tokens[j] = tokens[j], tokens[i]
        elif how == 'replace':
            tokens[i] = draw(st.sampled_from(FILLERS + VOCAB))
        elif how == 'insert':
            tokens.insert(i, draw(st.sampled_from(FILLERS)))
        else:
            tokens = tokens[:i]
    separator = draw(st.sampled_from([' ', ' ', '\n', '  \t']))
    return separator.join(tokens)


# ---- loosely grammatical programs ------------------------------------------------------
# Statements and values are built from the language's own shapes, but placed
# without regard to context or type (a power command inside a matrix block,
# braces inside braces, a string where a number goes, a `stage` in a loop in a
# routine): far more of these are accepted than of the token soup, so the
# "accepted => executable" half of the property gets real exercise.
L_VARS = ['a', 'b', 'c']
L_ROUTINES = ['f', 'g', 'h', 's']
L_LIGHTS = ['"A"', '"x"', '"y"', '"nope"']
L_REGS = ['hue', 'saturation', 'brightness', 'kelvin', 'duration', 'time',
          'red', 'green', 'blue']
L_OPS = ['+', '-', '*', '/', '%', '^', '<', '<=', '>', '>=', '==', '!=',
         'and', 'or']
L_PRELUDE = ('define m 5 define tp 6:30 define sm "A" '
             'assign a 1 assign b 2 assign c "A" '
             'define f with p q begin return { p + q } end '
             'define g begin wait end define h with p begin if p return 1 '
             'return 0 end '
             # a staging routine, meant to be called from a matrix block
             'define s with p begin stage row p end').split()


def _l_atom(draw, depth):
    kind = draw(st.integers(0, 13 if depth > 0 else 7))
    if kind <= 1:
        return [draw(st.sampled_from(['0', '1', '2', '3.5', '100', '65535',
                                      '7', '0.25']))]
    if kind == 2:
        return [draw(st.sampled_from(L_VARS + ['m', 'm', 'tp', 'sm']))]
    if kind == 3:
        return [draw(st.sampled_from(L_REGS))]
    if kind == 4:
        return [draw(st.sampled_from(L_LIGHTS + ['"^"', '"5"']))]
    if kind == 5:
        return ['-'] + _l_atom(draw, 0)
    if kind in (6, 7):
        return [draw(st.sampled_from(['1', '2', 'a', 'b']))]
    if kind == 8:
        return ['('] + _l_infix(draw, depth - 1) + [')']
    if kind == 9:
        return ['{'] + _l_infix(draw, depth - 1) + ['}']
    if kind == 10:
        return _l_call(draw, depth - 1, True)
    if kind == 11:
        return ['not'] + _l_atom(draw, depth - 1)
    if kind == 12:
        return ['[', draw(st.sampled_from(
            ['sqrt', 'round', 'floor', 'cycle', 'abs', 'sin'])),
                *_l_value(draw, depth - 1), ']']
    return ['[', 'random', *_l_value(draw, 0), *_l_value(draw, 0), ']']


def _l_infix(draw, depth):
    out = _l_atom(draw, depth)
    for _ in range(draw(st.integers(0, 3))):
        out += [draw(st.sampled_from(L_OPS))] + _l_atom(draw, depth)
    if draw(st.integers(0, 11)) == 0:
        # something left over where an operator or the end is due
        out += [draw(st.sampled_from(['"^"', '"+"', '"and"', '2', 'a', '^',
                                      'not', '"not"']))]
    return out


def _l_call(draw, depth, bracketed):
    name = draw(st.sampled_from(L_ROUTINES + ['k']))
    count = {'f': 2, 'g': 0, 'h': 1, 'k': 0, 's': 1}[name]
    if name == 'k' or draw(st.integers(0, 9)) == 0:
        count = draw(st.integers(0, 3))
    out = [name]
    for _ in range(count):
        out += _l_value(draw, depth)
    return ['['] + out + [']'] if bracketed else out


def _l_value(draw, depth):
    """What the grammar calls an rvalue."""
    kind = draw(st.integers(0, 9))
    if kind <= 3 or depth <= 0:
        return _l_atom(draw, 0)
    if kind <= 7:
        return ['{'] + _l_infix(draw, depth) + ['}']
    if kind == 8:
        return _l_call(draw, depth - 1, True)
    return ['not'] + _l_value(draw, depth - 1)


def _l_range(draw, depth):
    out = _l_value(draw, depth - 1)
    if draw(st.booleans()):
        out += _l_value(draw, depth - 1)
    return out


def _l_target(draw, depth, allow_block=True):
    kind = draw(st.integers(0, 11))
    light = draw(st.sampled_from(L_LIGHTS + ['c', 'a']))
    if kind <= 2:
        return [light]
    if kind == 3:
        return ['group', draw(st.sampled_from(['"G1"', '"G2"', '"none"']))]
    if kind == 4:
        return ['location', draw(st.sampled_from(['"L1"', '"none"']))]
    if kind == 5:
        return ['all']
    if kind == 6:
        return ['default']
    if kind == 7:
        return [light, 'zone'] + _l_range(draw, depth)
    if kind == 8:
        out = [light]
        for word in draw(st.permutations(['row', 'column'])):
            if draw(st.integers(0, 3)) > 0:
                out += [word] + _l_range(draw, depth)
        return out
    if kind == 9 and allow_block and depth > 0:
        return [light, 'begin'] + _l_block(draw, depth - 1, True) + ['end']
    if kind == 10:
        return [light, 'and'] + _l_target(draw, depth, allow_block)
    return [light]


def _l_body(draw, depth, in_matrix=False):
    if depth <= 0 or draw(st.integers(0, 3)) == 0:
        return _l_statement(draw, depth - 1, in_matrix)
    return ['begin'] + _l_block(draw, depth - 1, in_matrix) + ['end']


def _l_block(draw, depth, in_matrix=False):
    out = []
    for _ in range(draw(st.integers(0, 3))):
        out += _l_statement(draw, depth, in_matrix)
    return out


def _l_statement(draw, depth, in_matrix=False):
    kind = draw(st.integers(0, 27))
    if kind <= 2:
        return [draw(st.sampled_from(L_REGS))] + _l_value(draw, depth)
    if kind <= 5:
        return [draw(st.sampled_from(['set', 'on', 'off', 'set']))] + \
            _l_target(draw, depth)
    if kind <= 7 or (in_matrix and kind <= 10):
        if draw(st.integers(0, 7)) == 0:
            return ['stage', 'begin'] + _l_block(draw, depth - 1, True) + \
                ['end']
        out = ['stage']
        for word in draw(st.permutations(['row', 'column'])):
            if draw(st.booleans()):
                out += [word] + _l_range(draw, depth)
        return out
    if kind <= 10:
        return ['assign', draw(st.sampled_from(L_VARS + ['m', 'hue'])),
                *_l_value(draw, depth)]
    if kind == 11:
        return ['define', draw(st.sampled_from(['m', 'm2', 'a'])),
                *_l_atom(draw, 0)]
    if kind == 12 and depth > 0:
        params = draw(st.lists(st.sampled_from(['p', 'q', 'a', 'p']),
                               max_size=3))
        return (['define', draw(st.sampled_from(L_ROUTINES + ['k']))] +
                (['with'] + params if params else []) +
                _l_body(draw, depth))
    if kind <= 14:
        return _l_call(draw, depth, draw(st.booleans()))
    if kind <= 16 and depth > 0:
        out = ['if'] + _l_value(draw, depth) + _l_body(draw, depth, in_matrix)
        if draw(st.booleans()):
            out += ['else'] + _l_body(draw, depth, in_matrix)
        return out
    if kind <= 19 and depth > 0:
        head = draw(st.integers(0, 8))
        var = draw(st.sampled_from(['i', 'a', 'lt']))
        if head == 0:
            out = ['repeat']
        elif head == 1:
            out = ['repeat'] + _l_value(draw, depth - 1)
        elif head == 2:
            out = ['repeat', 'while'] + _l_value(draw, depth - 1)
        elif head == 3:
            out = ['repeat', 'with', var, 'from', *_l_value(draw, 0), 'to',
                   *_l_value(draw, 0)]
        elif head == 4:
            out = ['repeat', *_l_value(draw, 0), 'with', var, 'from',
                   *_l_value(draw, 0), 'to', *_l_value(draw, 0)]
        elif head == 5:
            out = ['repeat', *_l_value(draw, 0), 'with', var, 'cycle'] + (
                _l_value(draw, 0) if draw(st.booleans()) else [])
        elif head == 6:
            out = ['repeat', 'all', 'as', var]
        elif head == 7:
            out = ['repeat', 'in', *_l_target(draw, 0, False), 'as', var]
        else:
            out = ['repeat', 'in', *_l_target(draw, 0, False), 'as', var,
                   'with', 'i', 'cycle']
        return out + _l_body(draw, depth, in_matrix)
    if kind == 20:
        return ['break']
    if kind == 21:
        return ['return'] + (_l_value(draw, depth) if draw(st.booleans())
                             else [])
    if kind == 22:
        return [draw(st.sampled_from(['print', 'println']))] + \
            _l_value(draw, depth)
    if kind == 23:
        out = ['printf', draw(st.sampled_from(
            ['"{}"', '"{} {}"', '"{hue} {a}"', '"x"', '"{0} {1}"']))]
        for _ in range(draw(st.integers(0, 2))):
            out += _l_value(draw, depth)
        return out
    if kind == 24:
        return ['units', draw(st.sampled_from(['raw', 'logical', 'rgb']))]
    if kind == 25:
        return draw(st.sampled_from([['wait'], ['time', 'at', '8:00'],
                                     ['time', 'at', '*:*0', 'or', '9:1*'],
                                     ['println']]))
    if kind == 26:
        return ['get'] + _l_target(draw, 0, False)
    return ['get', *draw(st.sampled_from([['all'], ['row', '1'],
                                          ['row', '0', 'column', '1']]))]


@st.composite
def plausible(draw):
    tokens = list(L_PRELUDE) if draw(st.integers(0, 4)) > 0 else []
    if draw(st.integers(0, 3)) == 0:
        # a routine made of staging commands in all their forms, called
        # where no matrix block is open
        tokens += ['define', 'k', 'begin']
        for _ in range(draw(st.integers(1, 2))):
            tokens += _l_statement(draw, 2, in_matrix=True)
        tokens += ['end', 'k']
    for _ in range(draw(st.integers(1, 5))):
        tokens += _l_statement(draw, 3)
    return ' '.join(tokens)


@st.composite
def deep(draw):
    """One construct nested or chained n deep, closed properly or cut off."""
    n = draw(st.sampled_from([30, 120, 170, 330, 600, 1200, 3000]))
    shape = draw(st.sampled_from(
        ['braces', 'parens', 'if', 'else-if', 'repeat', 'calls', 'minus',
         'power', 'sum', 'and-list', 'not', 'begin']))
    closed = draw(st.booleans())
    if shape == 'braces':
        text = 'assign x ' + '{' * n + '1' + ('}' * n if closed else '')
    elif shape == 'parens':
        text = 'assign x {' + '(' * n + '1' + (')' * n + '}' if closed else '')
    elif shape == 'if':
        text = 'if 1 ' * n + ('print 1' if closed else '')
    elif shape == 'else-if':
        text = 'if 0 wait ' + 'else if 0 wait ' * n + \
            ('else wait' if closed else 'else')
    elif shape == 'repeat':
        text = 'repeat 1 ' * n + ('wait' if closed else '')
    elif shape == 'calls':
        text = 'assign x ' + '[sqrt ' * n + '4' + (']' * n if closed else '')
    elif shape == 'minus':
        text = 'assign x {' + '-' * n + '1' + ('}' if closed else '')
    elif shape == 'power':
        text = 'assign x {' + '1^' * n + '1' + ('}' if closed else '')
    elif shape == 'sum':
        text = 'assign x {' + '1+' * n + '1' + ('}' if closed else '')
    elif shape == 'and-list':
        text = 'repeat in ' + '"A" and ' * n + '"A" as q ' + \
            ('wait' if closed else '')
    elif shape == 'not':
        text = 'assign x {' + 'not ' * n + '1' + ('}' if closed else '')
    else:
        text = 'begin ' * n + 'wait ' + ('end ' * n if closed else '')
    return text


@st.composite
def rule_breakers(draw):
    """A valid script with exactly one documented violation injected."""
    case = draw(gen.programs(PROFILE))
    program = case['program']
    text = printer.to_text(program)
    kind = draw(st.sampled_from(
        ['break', 'break', 'return', 'assign-macro', 'redefine-macro',
         'redefine-routine', 'redefine-across-kinds', 'redefine-builtin',
         'power-with-zone',
         'undefined-name',
         'nested-routine', 'missing-end', 'unbalanced', 'bad-pattern',
         'undefined-call']))
    if kind == 'break':
        # the loops round a routine DEFINITION are not loops of its body
        where = draw(st.sampled_from([
            '{}', 'if 1 begin {} end', 'define qq_r begin {} end',
            'repeat 2 begin wait end {}',
            'repeat 2 begin define qq_r begin {} end end',
            'repeat 2 begin define qq_r with a begin if a begin {} end end '
            'qq_r 1 end',
            'repeat all as qq_l begin define qq_r begin wait {} end end',
            'if 1 begin repeat while 0 begin define qq_r begin {} wait end '
            'end end']))
        return text + '\n' + where.format('break'), 'break outside a loop'
    if kind == 'return':
        where = draw(st.sampled_from([
            '{}', 'if 1 begin {} end', 'repeat 2 begin {} end',
            'repeat 2 begin if 1 begin {} 5 end end',
            'define qq_r begin wait end repeat 2 begin {} end']))
        return (text + '\n' + where.format('return'),
                'return outside a routine')
    # a routine may reuse a macro's name for a parameter or a loop variable;
    # that does not make the macro assignable afterwards
    between = draw(st.sampled_from([
        '', '', 'define qq_r with QQ begin wait end',
        # at top level these are themselves assignments to the macro
        'repeat with QQ from 5 to 7 begin wait end',
        'repeat all as QQ begin wait end',
        'repeat 2 with QQ cycle begin wait end',
        'define qq_r with a QQ begin assign QQ 1 end',
        'define qq_r begin repeat with QQ from 1 to 2 begin wait end end',
        'define qq_r begin repeat all as QQ begin wait end end',
        'define qq_r begin repeat 2 with QQ cycle begin wait end end']))
    if kind == 'assign-macro':
        return ('define QQ 5\n' + text + '\n' + between + '\nassign QQ 6',
                'assignment to a macro')
    if kind == 'redefine-macro':
        return ('define QQ 5\n' + text + '\n' + between + '\ndefine QQ ' +
                draw(st.sampled_from(['6', '"s"', '5'])),
                'macro defined twice')
    if kind == 'redefine-across-kinds':
        # one name, defined once as a macro and once as a routine
        first, second = draw(st.sampled_from([
            ('define QQ 240', 'define QQ println "x"'),
            ('define QQ 240', 'define QQ begin wait end'),
            ('define QQ 240', 'define QQ with a begin wait end'),
            ('define QQ println "x"', 'define QQ "Table"'),
            ('define QQ begin wait end', 'define QQ 5')]))
        return (first + '\n' + text + '\n' + second,
                'name defined twice (macro and routine)')
    if kind == 'power-with-zone':
        # on / off take no zone, row or column, wherever they are written
        command = draw(st.sampled_from(['on "z" zone 1', 'off "z" zone 0 2',
                                        'on "y" row 1', 'off "y" column 0 1']))
        where = draw(st.sampled_from([
            '{}', 'repeat 2 begin {} end', 'define qq_r begin {} end qq_r',
            'set "y" begin {} end', 'set "y" begin stage row 1 {} end',
            'define qq_r begin {} end set "y" begin qq_r end']))
        return (text + '\n' + where.format(command),
                'zone / row / column with a power command')
    if kind == 'redefine-builtin':
        # the built-in functions are routines that are already defined,
        # whatever was done to the name in between
        name = draw(st.sampled_from(['trunc', 'floor', 'ceil', 'round',
                                     'sqrt', 'cycle', 'sin', 'random']))
        before = draw(st.sampled_from(
            ['', 'assign qq_v [{} 2]'.format(name) if name != 'random'
             else 'assign qq_v [random 1 2]']))
        between = draw(st.sampled_from(
            ['', 'assign {} 0'.format(name),
             'repeat with {} from 1 to 2 wait'.format(name),
             'repeat all as {} wait'.format(name)]))
        return ('\n'.join([before, text, between,
                           'define {} with a begin return 99 end'.format(
                               name)]), 'built-in function defined again')
    if kind == 'redefine-routine':
        # a routine cannot be defined twice, whatever was done to its name
        # in between
        return (text + '\ndefine qq_r begin wait end\n' + draw(
            st.sampled_from(['', 'assign qq_r 0', 'qq_r',
                             'repeat with qq_r from 1 to 2 wait'])) +
            '\ndefine qq_r with a begin wait end', 'routine defined twice')
    if kind == 'undefined-name':
        use = draw(st.sampled_from(
            ['hue qq_undefined',
             # a first assignment cannot read its own target
             'assign qq_undefined { qq_undefined + 1 }',
             'assign qq_undefined qq_undefined',
             'define qq_t begin assign qq_undefined { qq_undefined * 2 } end',
             'assign qq_undefined [ floor qq_undefined ]',
             # a loop variable has no value yet in its own header
             'repeat with qq_undefined from 1 to qq_undefined wait',
             'repeat 3 with qq_undefined from qq_undefined to 9 wait',
             'repeat 3 with qq_undefined cycle qq_undefined wait', 'assign v { 1 + qq_undefined }',
             'set qq_undefined', 'print qq_undefined',
             'repeat qq_undefined begin wait end',
             'define m2 qq_undefined']))
        return text + '\n' + use, 'use of an undefined name'
    if kind == 'undefined-call':
        return text + '\nqq_undefined 1 2', 'use of an undefined name'
    if kind == 'nested-routine':
        return (text + '\ndefine outer_q begin\ndefine inner_q begin wait end '
                '\nend'), 'routine defined inside a routine'
    tokens = printer.token_texts(printer.tokens(program))
    if kind == 'missing-end':
        positions = [i for i, t in enumerate(tokens) if t == 'end']
        if not positions:
            return text + '\nif 1 begin wait', 'missing end'
        del tokens[positions[-1]]
        return ' '.join(tokens), 'missing end'
    if kind == 'unbalanced':
        closers = [i for i, t in enumerate(tokens) if t in ('}', ']', ')')]
        if not closers:
            return text + '\nassign v { ( 1 + 2 }', 'unbalanced parenthesis'
        victim = draw(st.sampled_from(closers))
        which = tokens[victim]
        if draw(st.booleans()):
            tokens[victim] = '"' + which + '"'    # a string is no closer
        else:
            del tokens[victim]
        return ' '.join(tokens), 'missing closing ' + which
    bad = draw(st.sampled_from(['25:00', '12:60', '1:5', '**:00', '8:0*0',
                                '', '3*:00', '12']))
    return text + '\ntime at ' + bad + ' wait', 'malformed time pattern'


def plan(tier, seed_value):
    specs = []
    per = {'soup': 32000, 'mutated': 12000, 'noise': 8000, 'rules': 4000,
           'valid': 4000, 'plausible': 16000, 'deep': 640}
    if tier == 'thorough':
        per = {k: v * 25 for k, v in per.items()}
    for k in range(16):
        for kind, total in per.items():
            specs.append({'kind': kind, 'seed': seed_value * 1000 + k,
                          'examples': total // 16})
    if tier == 'thorough':
        for k in range(8):
            specs.append({'kind': 'atheris', 'seed': seed_value * 1000 + k,
                          'runs': 400000, 'corpus': k % 2 == 1})
    return specs


def run_shard(spec):
    acc = Acc()
    kind = spec['kind']
    if kind == 'atheris':
        from verif import fuzz_atheris
        fuzz_atheris.campaign(acc, spec)
        return acc
    strategy = {
        'soup': soup, 'mutated': mutated(),
        'noise': st.one_of(st.text(max_size=80),
                           st.binary(max_size=80).map(
                               lambda b: b.decode('latin-1'))),
        'rules': rule_breakers(), 'plausible': plausible(), 'deep': deep(),
        'valid': gen.programs(CONTROL_PROFILE).map(
            lambda case: printer.to_text(case['program']))}[kind]

    if kind == 'noise':
        @seed(spec['seed'] + 7)
        @progbase.hyp_settings(max(20, spec['examples'] // 10))
        @given(st.one_of(
            st.binary(max_size=40),
            st.tuples(st.sampled_from([b'on all\n', b'print "', b'# ']),
                      st.binary(min_size=1, max_size=6)).map(b''.join)))
        def run_files(data):
            evaluate_file(acc, data)
        run_files()

    @seed(spec['seed'])
    @progbase.hyp_settings(spec['examples'])
    @given(strategy)
    def run(value):
        if kind == 'rules':
            text, rule = value
            evaluate(acc, text, must_reject=rule, label='rule-breaker')
        else:
            evaluate(acc, value, label=kind)
    run()
    return acc


def replay(case):
    acc = Acc()
    if case.get('kind') == 'file':
        evaluate_file(acc, bytes.fromhex(case['hex']))
        return [(f['sig'], f['what']) for f in acc.failures.values()]
    evaluate(acc, case['text'], case.get('must_reject'), 'replay')
    return [(f['sig'], f['what']) for f in acc.failures.values()]


def shrink(failure):
    """ddmin over white-space separated tokens, same signature."""
    import time
    if failure['case'].get('kind') == 'file':
        return failure
    text = failure['case']['text']
    must = failure['case'].get('must_reject')
    if must:
        return failure
    tokens = text.split()
    deadline = time.time() + 15

    def fails(candidate):
        acc = Acc()
        evaluate(acc, ' '.join(candidate), must, 'shrink')
        return failure['sig'] in acc.failures
    if not fails(tokens):
        return failure
    chunk = max(1, len(tokens) // 2)
    while chunk >= 1 and time.time() < deadline:
        index = 0
        reduced = False
        while index < len(tokens) and time.time() < deadline:
            candidate = tokens[:index] + tokens[index + chunk:]
            if candidate != tokens and fails(candidate):
                tokens = candidate
                reduced = True
            else:
                index += chunk
        if not reduced or chunk == 1:
            if chunk == 1 and not reduced:
                break
            chunk = max(1, chunk // 2)
    acc = Acc()
    evaluate(acc, ' '.join(tokens), must, 'shrink')
    return acc.failures.get(failure['sig'], failure)
