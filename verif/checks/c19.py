"""C19 - print, println and printf write exactly the documented text to stdout."""
import contextlib
import io
import string

from hypothesis import given, seed, strategies as st

from verif import env  # noqa: F401
from verif.checks import progbase
from verif.lang import printer, ref
from verif.runner import Acc

ID = 'C19'
LEVEL = 'exploration'
RULE = (
    'Model of standard output. Hypothesis generates sequences of 1..12 '
    'print / println / printf statements interleaved with register settings, '
    'assignments and device commands; values of every kind (ints, decimal '
    'literals, strings, truth values, registers, variables, expressions, '
    'calls of user routines - which may print themselves - and built-ins); '
    'format strings built from literal text (with \\n and doubled braces), '
    'anonymous {} or numbered {0}..{3} fields, named fields for registers '
    'and variables and format specs valid for the value\'s type. The script '
    'runs on the production stack with the production stdout binding and '
    'sys.stdout captured; the text must equal the model (one space between '
    'outputs on a line, println ends the line, printf = '
    'fmt.replace("\\\\n","\\n").format(*positional, **named)) applied to the '
    'reference interpreter\'s values, and the number of characters written '
    'before each device command must agree (program order). A single '
    'trailing newline at the end of the script, and a space directly after '
    'a printf text ending in a newline, are optional. Non-trivial = >= 2 '
    'outputs on one line, or a format mixing positional and named fields. '
    'Distinct by script.')
ASSUMPTIONS = [
    'Values are printed with Python str(); value types come from the '
    'reference interpreter (int literals are ints, / yields floats).',
]
POP = [{'label': 'A', 'group': 'G', 'location': 'L', 'kind': 'plain'},
       {'label': 'B', 'group': 'G', 'location': 'L', 'kind': 'plain'}]
PRELUDE = [
    ['assign', 'a', ['num', '3']],
    ['assign', 'b', ['num', '2.5']],
    ['assign', 's', ['str', 'lamp']],
    ['define', 'M1', ['num', '4']],
    ['define', 'F1', ['str', 'v={} w={}']],
    ['setreg', 'hue', ['num', '120']],
    ['setreg', 'saturation', ['num', '50']],
    ['setreg', 'brightness', ['num', '12.5']],
    ['setreg', 'kelvin', ['num', '2700']],
    ['setreg', 'duration', ['num', '4']],
    ['setreg', 'time', ['num', '3']],
    ['routine', 'f1', ['p'], [['return', ['bin', '*', ['var', 'p'],
                                          ['num', '2']]]]],
    ['routine', 'f2', ['p'], [['print', ['str', 'in-f2']],
                              ['return', ['bin', '+', ['var', 'p'],
                                          ['num', '1']]]]],
    ['routine', 'f3', ['p'], [['printf', ['str', 'g={p}'], []],
                              ['return', ['var', 'p']]]],
]

INT_VALUES = [['num', '0'], ['num', '7'], ['num', '12345'], ['var', 'a'],
              ['macro', 'M1'], ['reg', 'hue'], ['reg', 'kelvin'],
              ['bin', '+', ['var', 'a'], ['num', '1']],
              ['call', 'f1', [['num', '4']]], ['call', 'round', [['num', '2.6']]],
              ['neg', ['num', '5']], ['call', 'f2', [['num', '1']]],
              ['call', 'f3', [['num', '9']]]]
FLOAT_VALUES = [['num', '2.5'], ['num', '0.125'], ['var', 'b'],
                ['reg', 'brightness'],
                ['bin', '/', ['var', 'a'], ['num', '2']],
                ['bin', '*', ['var', 'b'], ['num', '3']],
                ['call', 'f1', [['var', 'b']]]]
STR_VALUES = [['str', 'hello'], ['str', ''], ['str', 'two words'],
              ['var', 's'], ['str', '{'], ['str', '-'], ['str', '100%'],
              ['str', 'C:\\new'], ['str', 'a\\nb'], ['str', '{}'],
              ['str', 'say \\"hi\\"'], ['str', '\\"q'], ['str', 'mid\\"dle']]
BOOL_VALUES = [['bin', '<', ['var', 'a'], ['num', '5']],
               ['bin', 'and', ['var', 'a'], ['num', '0']],
               ['bin', '==', ['var', 'b'], ['num', '2.5']]]
SPECS = {'int': ['', ':d', ':>5', ':05d', ':x', ':<3'],
         'float': ['', ':.2f', ':8.3f', ':.0f', ':g'],
         'str': ['', ':>8', ':<6', ':s', ':^7'],
         'bool': ['']}
NAMED = {'int': ['a', 'hue', 'kelvin', 'saturation', 'duration', 'time'],
         'float': ['b', 'brightness'], 'str': ['s']}
TEXT = ['x', 'Light:', '=', ', ', ' ', '\\n', '{{', '}}', '#', 'a b', '%',
        '-', '']


@st.composite
def values(draw):
    kind = draw(st.sampled_from(['int', 'int', 'float', 'str', 'bool']))
    pool = {'int': INT_VALUES, 'float': FLOAT_VALUES, 'str': STR_VALUES,
            'bool': BOOL_VALUES}[kind]
    return kind, draw(st.sampled_from(pool))


@st.composite
def printf_statements(draw):
    """(statement, mixes positional and named fields?)

    The compiler takes one argument per anonymous or numbered field
    occurrence; `{k}` then selects the k-th of them."""
    count = draw(st.integers(0, 4))
    args = [draw(values()) for _ in range(count)]
    numbered = draw(st.booleans()) and count > 0
    fields = []
    for position in range(count):
        index = draw(st.integers(0, count - 1)) if numbered else position
        spec = draw(st.sampled_from(SPECS[args[index][0]]))
        fields.append('{' + (str(index) if numbered else '') + spec + '}')
    mixes_named = False
    for _ in range(draw(st.integers(0, 2))):
        kind = draw(st.sampled_from(['int', 'float', 'str']))
        name = draw(st.sampled_from(NAMED[kind]))
        spec = draw(st.sampled_from(SPECS[kind]))
        where = draw(st.integers(0, len(fields)))
        fields.insert(where, '{' + name + spec + '}')
        mixes_named = True
        if not numbered and where < len(fields) - 1:
            pass        # named fields may sit anywhere among anonymous ones
    pieces = []
    for field in fields:
        pieces.append(draw(st.sampled_from(TEXT)))
        pieces.append(field)
    pieces.append(draw(st.sampled_from(TEXT)))
    fmt = ''.join(pieces) or 'x'     # an empty format is not a format
    use_macro = fmt == 'v={} w={}'
    stmt = ['printf', ['macro', 'F1'] if use_macro else ['str', fmt],
            [v for _, v in args]]
    return stmt, mixes_named and count > 0


@st.composite
def scripts(draw):
    body = []
    mixes = False
    for _ in range(draw(st.integers(1, 12))):
        kind = draw(st.sampled_from(
            ['print', 'print', 'print', 'println', 'println', 'println0',
             'printf', 'printf', 'cmd', 'setreg', 'assign']))
        if kind in ('print', 'println'):
            body.append([kind, draw(values())[1]])
        elif kind == 'println0':
            body.append(['println', None])
            # the next token must not be able to start a value
            body.append(draw(st.sampled_from(
                [['print', ['str', 'z']], ['action', 'on', [['light', [
                    'str', 'A']]]], ['wait']])))
        elif kind == 'printf':
            stmt, mixed = draw(printf_statements())
            mixes = mixes or mixed
            body.append(stmt)
        elif kind == 'cmd':
            body.append(['action', draw(st.sampled_from(['set', 'on', 'off'])),
                         [['light', ['str', draw(st.sampled_from(
                             ['A', 'B']))]]]])
        elif kind == 'setreg':
            body.append(['setreg', draw(st.sampled_from(['hue', 'kelvin'])),
                         ['num', str(draw(st.integers(0, 360)))]])
        else:
            body.append(['assign', 'a', ['num', str(draw(st.integers(0, 99)))]])
    return {'body': body, 'mixes': mixes}


def model(trace, space_after_printf_newline):
    """(text, [chars written before each command]) from an expected trace."""
    out = []
    pending = False
    marks = []
    after_newline_text = False
    for event in trace:
        if event[0] == 'out':
            text = str(event[1])
            if pending and (space_after_printf_newline
                            or not after_newline_text):
                out.append(' ')
            out.append(text)
            pending = True
            after_newline_text = text.endswith('\n')
        elif event[0] == 'nl':
            out.append('\n')
            pending = False
            after_newline_text = False
        elif event[0] == 'cmd':
            marks.append(len(''.join(out)))
    return ''.join(out), marks


def check_script(acc, case):
    from verif.harness import World
    program = [list(s) for s in PRELUDE] + case['body']
    text = printer.to_text(program)
    payload = {'kind': 'stdout', 'case': case}
    interp = ref.Interp(POP)
    try:
        expected = interp.run(program)
    except (ref.Undefined, ref.Budget) as ex:
        acc.discard(str(ex)[:30])
        return
    except ref.RefBug as ex:
        # a format / value combination Python itself rejects: the script is
        # not well-defined (e.g. {:d} with a value that is not an int)
        acc.discard('ref:' + str(ex)[:24])
        return
    world = World(POP, output='stdout')
    marks = []

    class Stdout(io.StringIO):
        """Standard output with a buffer in front of it, as when it is a file
        or a pipe: only what has been flushed has been written."""
        committed = 0

        def flush(self):
            self.committed = len(self.getvalue())
    buffer = Stdout()

    def on_request(entry):
        world._on_request(entry)
        if entry[1].startswith('set_'):
            # what has reached standard output, not what sits in its buffer
            marks.append(buffer.committed)
    world.lan.on_request = on_request
    job = world.compile(text)
    if job.program is None:
        acc.case(key=text, labels=['stdout', 'rejected'])
        acc.fail('stdout:compile-rejected', 'well-formed script rejected: {}'
                 '\n{}'.format(job.compile_errors.strip()[:200], text),
                 payload)
        return
    with contextlib.redirect_stdout(buffer):
        job.execute()
    got = buffer.getvalue()
    aborted = [m for _, m in world.log.records
               if m.startswith('Machine stopped')]
    lines = [line for line in got.split('\n')]
    per_line = 0
    line_outputs = 0
    for event in expected:
        if event[0] == 'out':
            line_outputs += 1
            per_line = max(per_line, line_outputs)
        elif event[0] == 'nl':
            line_outputs = 0
    nontrivial = per_line >= 2 or case['mixes']
    acc.case(key=text, nontrivial=nontrivial,
             labels=['stdout'] + (['mixed-fields'] if case['mixes'] else []),
             sample={'script': printer.to_text(case['body'])[:400],
                     'stdout': got[:200]}
             if nontrivial and len(acc.samples) < 4 else None)
    # the first output on a line has nothing in front of it, also when the
    # line was begun by a `\n` at the end of a printf text
    want, want_marks = model(expected, False)
    ok = got in (want, want + '\n') and marks == want_marks
    if ok and not aborted and buffer.committed != len(got):
        acc.fail('stdout:not-flushed',
                 'when the script ended only {} of its {} characters had been '
                 'flushed to standard output\n{}'.format(
                     buffer.committed, len(got),
                     printer.to_text(case['body'])), payload)
        return
    if ok and not aborted:
        return
    if aborted:
        sig, what = 'stdout:aborted', aborted[0]
    elif got not in (want, want + '\n'):
        sig = 'stdout:text'
        what = 'stdout is {!r}, expected {!r}'.format(got, want)
    else:
        sig = 'stdout:order'
        what = ('characters written before each device command: {} '
                'expected {}'.format(marks, want_marks))
    acc.fail(sig, '{}\n--- script (after the fixed prelude) ---\n{}'.format(
        what, printer.to_text(case['body'])), payload)


def plan(tier, seed_value):
    specs = progbase.plan(ID, tier, seed_value, quick=4800, thorough=200000)
    specs.append({'kind': 'negative-literals'})
    return specs


# A negative number is a value like any other: the manual writes [ceil -1.5]
# and hue -5 without braces.
NEGATIVE = [('print -5 println -1.5', '-5 -1.5\n'),
            ('println -0.25', '-0.25\n'),
            ('printf "{} {}" -5 -2.5 println', '-5 -2.5\n'),
            ('print 1 print -2 println -3', '1 -2 -3\n'),
            ('define f with q begin return -1 end println [f 0]', '-1\n'),
            ('assign v -7 println v', '-7\n'),
            ('define m -4 println m', '-4\n'),
            # a printf that cannot be completed writes nothing: the values
            # collected for it so far are not text the script asked for
            ('assign n 0 println "a" printf "t={} u={}" 120 {120 / n} '
             'println "never"', 'a\n'),
            ('define f with q begin return {1 / q} end print "x" '
             'printf "{} {} {}" 1 2 [f 0]', 'x')]


def check_negative(acc, text, want):
    from verif.harness import World
    world = World(POP, output='stdout')
    buffer = io.StringIO()
    job = world.compile(text)
    case = {'kind': 'negative', 'text': text, 'want': want}
    acc.case(key=text, nontrivial=True, labels=['negative-literal'],
             sample={'script': text} if len(acc.samples) < 2 else None)
    if job.program is None:
        acc.fail('negative-literal:rejected', '{!r} was rejected: {}'.format(
            text, job.compile_errors.strip()), case)
        return
    with contextlib.redirect_stdout(buffer):
        job.execute()
    if buffer.getvalue() != want:
        acc.fail('negative-literal:text', '{!r} wrote {!r}, expected {!r}'
                 .format(text, buffer.getvalue(), want), case)


def run_shard(spec):
    acc = Acc()
    if spec.get('kind') == 'negative-literals':
        for text, want in NEGATIVE:
            check_negative(acc, text, want)
        return acc

    @seed(spec['seed'])
    @progbase.hyp_settings(spec['examples'])
    @given(scripts())
    def run(case):
        check_script(acc, case)
    run()
    return acc


def replay(case):
    if case.get('kind') == 'negative':
        acc = Acc()
        check_negative(acc, case['text'], case['want'])
        return [(f['sig'], f['what']) for f in acc.failures.values()]
    acc = Acc()
    check_script(acc, case['case'])
    return [(f['sig'], f['what']) for f in acc.failures.values()]
