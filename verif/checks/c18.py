"""C18 - replaying a captured snapshot script restores the captured state."""
import os
import re
import shutil

from hypothesis import given, seed, strategies as st

from verif import env, runner
from verif.checks import progbase
from verif.runner import Acc

ID = 'C18'
LEVEL = 'exploration'
RULE = (
    'Round trip. Hypothesis draws a population mixing plain, multizone (1..82 '
    'zones) and matrix lights (1x1 .. 16x4 / 8x8) with arbitrary raw state '
    '(every component anywhere in 0..65535 incl. the edges, power on/off) '
    'and names from a hostile-string strategy (whole keywords such as all / '
    'default / zone, token vocabulary, braces, '
    '#, quotes excluded, line breaks excluded), plus a second arbitrary '
    'state for replay time. ScriptSnapshot().generate(None).text - and the '
    'file WebApp.snapshot() writes - is captured in state 1, the devices are '
    'put into state 2, the text is compiled and run by the production stack, '
    'and every plain light must hold the captured HSBK and power, every zone '
    'and every cell its captured colour, exactly. A third of the direct '
    'captures are of some lights only (`lscap -s NAME`, `lscap -s -r '
    'PATTERN`: generate() with a name, present or not, or a compiled '
    'pattern): the lights the name / pattern selects are restored exactly '
    'and no other light gets a command. Non-trivial = at least one '
    'light of each kind and at least one value that is not a multiple of the '
    'logical grid. Distinct by population + states.')
ASSUMPTIONS = [
    'Device state is what the simulated lifxlan objects hold after the run; '
    'a names ending in a backslash is excluded while the corresponding '
    'finding is open.',
]

VOCAB = ['{', '}', '[', ']', '(', ')', '#', '-', '+', '%', ':', '8:00', ' ',
         'and', 'end', 'begin', 'set', 'zone', '{}', '{0}', "'", '\\', '\t',
         'é', '灯', '\x1c', 'Lamp', 'x', '1', '.', '*', '\\n']
LINE_BREAKS = '\n\r\x0b\x0c\x85  '

raw_value = st.one_of(st.integers(0, 65535),
                      st.sampled_from([0, 1, 65534, 65535, 32767, 32768, 182,
                                       183, 655, 21845]))


def color():
    return st.tuples(raw_value, raw_value, raw_value,
                     st.one_of(st.integers(1500, 9000), raw_value)).map(list)


# labels that are, as a whole, a word of the language
WORD_NAMES = ['all', 'default', 'group', 'location', 'zone', 'row', 'column',
              'begin', 'end', 'and', 'as', 'on', 'off', 'set', 'stage', 'get',
              'define', 'hue', 'K', 'H', 'S', 'B', 'time', 'not', 'or', 'with',
              'in', 'raw', 'repeat', 'if', '8:00', '5', '-1', 'x']


@st.composite
def names(draw, trailing_backslash_ok):
    if draw(st.integers(0, 4)) == 0:
        return draw(st.sampled_from(WORD_NAMES))
    parts = draw(st.lists(st.one_of(
        st.sampled_from(VOCAB),
        st.characters(blacklist_characters='"' + LINE_BREAKS,
                      blacklist_categories=('Cs',))), min_size=1, max_size=6))
    text = ''.join(parts).replace('\\"', '\\ ')
    if not trailing_backslash_ok:
        while text.endswith('\\'):
            text = text[:-1] + '/'
    return text or 'L'


@st.composite
def cases(draw, trailing_backslash_ok):
    count = draw(st.sampled_from([0, 1, 1, 2, 3, 4, 5, 6]))   # none at all too
    kinds = draw(st.lists(st.sampled_from(['plain', 'plain', 'mz', 'matrix']),
                          min_size=count, max_size=count))
    if count >= 3 and draw(st.booleans()):
        kinds[:3] = draw(st.sampled_from([
            ['plain', 'mz', 'matrix'], ['matrix', 'plain', 'matrix'],
            ['matrix', 'mz', 'matrix'], ['mz', 'matrix', 'mz']]))
    labels = draw(st.lists(names(trailing_backslash_ok), min_size=count,
                           max_size=count, unique=True))
    population, second = [], []
    # real installations repeat colours: neighbouring cells, zones and
    # lights often hold the very same colour (a dark tile, a uniform strip)
    palette = [draw(color()) for _ in range(2)] + [[0, 0, 0, 3500]]
    uniform = draw(st.integers(0, 2)) == 0

    def shade():
        if uniform:
            return list(draw(st.sampled_from(palette)))
        return draw(color())
    for label, kind in zip(labels, kinds):
        spec = {'label': label, 'group': draw(st.sampled_from(['G', 'H'])),
                'location': 'L', 'kind': kind, 'color': shade(),
                'power': draw(st.sampled_from([0, 65535]))}
        other = {'color': draw(color()),
                 'power': draw(st.sampled_from([0, 65535]))}
        if kind == 'mz':
            zones = draw(st.sampled_from([1, 2, 3, 8, 16, 40, 82]))
            spec['zones'] = zones
            spec['zone_colors'] = [shade() for _ in range(zones)]
            other['zone_colors'] = [draw(color()) for _ in range(zones)]
        elif kind == 'matrix':
            height, width = draw(st.sampled_from(
                [(1, 1), (2, 3), (6, 5), (11, 5), (8, 8), (16, 4), (3, 7)]))
            spec['height'], spec['width'] = height, width
            spec['cells'] = [shade() for _ in range(height * width)]
            other['cells'] = [draw(color()) for _ in range(height * width)]
        population.append(spec)
        second.append(other)
    case = {'population': population, 'second': second}
    # `lscap -s NAME` / `lscap -s -r PATTERN`: a capture of some lights only
    choice = draw(st.integers(0, 5))
    if choice == 0 and labels:
        case['filter'] = ['name', draw(st.sampled_from(labels))]
    elif choice == 1:
        case['filter'] = ['name', draw(names(trailing_backslash_ok))]
    elif choice == 2 and labels:
        chosen = draw(st.lists(st.sampled_from(labels), min_size=1,
                               max_size=3, unique=True))
        cut = draw(st.integers(1, 4))
        case['filter'] = ['regex', '|'.join(
            re.escape(label[:cut]) for label in chosen)]
    return case


def check_case(acc, case, via_web=False):
    from verif.harness import World
    from bardolph.controller.snapshot import ScriptSnapshot
    population, second = case['population'], case['second']
    payload = {'kind': 'snapshot', 'case': case, 'via_web': via_web}
    world = World(population, extra_settings={'manifest_file_name': None})
    kinds = {spec['kind'] for spec in population}
    off_grid = any(v % 655 for spec in population for v in spec['color'][:3])
    nontrivial = kinds >= {'plain', 'mz', 'matrix'} and off_grid
    selector = case.get('filter') if not via_web else None
    if selector is None:
        captured = {spec['label'] for spec in population}
        argument = None
    elif selector[0] == 'name':
        captured = {spec['label'] for spec in population
                    if spec['label'] == selector[1]}
        argument = selector[1]
    else:
        # what snapshot.main() does with -r; "the lights with names that
        # start with" the pattern
        argument = re.compile(selector[1])
        captured = {spec['label'] for spec in population
                    if re.match(selector[1], spec['label'])}
    try:
        if via_web:
            text = capture_via_web(world)
        else:
            text = ScriptSnapshot().generate(argument).text
    except RetrieveMismatch as ex:
        acc.case(key=repr(case), nontrivial=nontrivial,
                 labels=['snapshot', 'web'])
        acc.fail('retrieve-button-runs-another-file', str(ex), payload)
        return
    except Exception as ex:
        acc.case(key=repr(case), nontrivial=nontrivial,
                 labels=['snapshot', 'capture-raised'])
        acc.fail('capture-raised' + _suffix(population),
                 'capturing raised {!r} for lights {}'.format(
                     ex, [s['label'] for s in population]), payload)
        return
    for spec, other in zip(population, second):
        device = world.lan.device(spec['label'])
        device.color = list(other['color'])
        device.power = other['power']
        if device.zones is not None:
            device.zones = [list(c) for c in other['zone_colors']]
        if device.cells is not None:
            device.cells = [list(c) for c in other['cells']]
    result = world.run(text, budget=400000)
    acc.case(key=repr(case), nontrivial=nontrivial,
             labels=['snapshot', 'web' if via_web else 'direct',
                     'filter:' + (selector[0] if selector else 'none'),
                     'captured:' + ('all' if len(captured) == len(population)
                                    else 'none' if not captured else 'some')]
             + sorted('kind:' + k for k in kinds),
             sample={'lights': [[s['label'], s['kind']] for s in population],
                     'script_head': text[:300]}
             if nontrivial and len(acc.samples) < 3 else None)
    if not result.compiled:
        acc.fail('snapshot-does-not-compile' + _suffix(population),
                 'the captured script does not compile: {}\n{}'.format(
                     result.errors.strip()[:160], text[:400]), payload)
        return
    if result.aborted or result.budget_exhausted:
        acc.fail('snapshot-replay-aborted', 'replay stopped: {}\n{}'.format(
            result.aborted, text[:400]), payload)
        return
    for message in world.lan.protocol_errors[:1]:
        acc.fail('protocol', message, payload)
    for spec, other in zip(population, second):
        device = world.lan.device(spec['label'])
        label = spec['label']
        if label not in captured:
            # not part of the capture: the replay leaves it alone
            touched = [e for e in device.attempts
                       if e[1].startswith('set_')]
            state = (device.color, device.power, device.zones, device.cells)
            if touched or state != (
                    other['color'], other['power'], other.get('zone_colors'),
                    other.get('cells')):
                acc.fail('uncaptured-light-changed',
                         'capture of {} only: light {!r} got {} on replay'
                         .format(selector, label, touched[:2]), payload)
            continue
        if spec['kind'] == 'plain':
            if device.color != spec['color']:
                acc.fail('plain-colour',
                         'light {!r}: colour after replay {} captured {}\n{}'
                         .format(label, device.color, spec['color'],
                                 text[:300]), payload)
            if device.power != spec['power']:
                acc.fail('plain-power',
                         'light {!r}: power after replay {} captured {}'
                         .format(label, device.power, spec['power']), payload)
        elif spec['kind'] == 'mz':
            if device.zones != spec['zone_colors']:
                wrong = [i for i, (a, b) in enumerate(
                    zip(device.zones, spec['zone_colors'])) if a != b]
                acc.fail('zone-colour',
                         'light {!r}: zones {} differ after replay (zone {}: '
                         '{} captured {})'.format(
                             label, wrong[:5], wrong[0],
                             device.zones[wrong[0]],
                             spec['zone_colors'][wrong[0]]), payload)
        else:
            if device.cells != spec['cells']:
                wrong = [i for i, (a, b) in enumerate(
                    zip(device.cells, spec['cells'])) if a != b]
                acc.fail('cell-colour',
                         'light {!r} ({}x{}): cells {} differ after replay '
                         '(cell {}: {} captured {})'.format(
                             label, spec['height'], spec['width'], wrong[:5],
                             wrong[0], device.cells[wrong[0]],
                             spec['cells'][wrong[0]]), payload)


def _suffix(population):
    if any(s['label'].endswith('\\') for s in population):
        return ':trailing-backslash'
    return ''


class RetrieveMismatch(Exception):
    pass


def capture_via_web(world):
    from bardolph.lib import injection, settings
    from bardolph.lib.i_lib import Settings
    from web.web_app import WebApp
    directory = env.work_dir('C18', os.getpid())
    current = injection.provide(Settings)
    config = dict(current._config)
    config.update({'script_path': directory, 'manifest_file_name': None})
    settings.using(config).configure()
    app = WebApp()
    app.snapshot()
    # "Clicking on Retrieve runs that script": the file the shipped
    # manifest's Retrieve button names, in the same script directory
    import json
    with open(os.path.join(env.REPO, 'web', 'manifest.json')) as src:
        manifest = json.load(src)
    retrieve = [e for e in manifest if e.get('path') == 'retrieve']
    written = sorted(os.listdir(directory))
    if len(retrieve) != 1 or retrieve[0].get('file_name') not in written:
        shutil.rmtree(directory, ignore_errors=True)
        raise RetrieveMismatch(
            'Capture wrote {} but the Retrieve button of web/manifest.json '
            'runs {}'.format(written, [e.get('file_name') for e in retrieve]))
    path = os.path.join(directory, retrieve[0]['file_name'])
    with open(path, encoding=None) as src:
        text = src.read()
    shutil.rmtree(directory, ignore_errors=True)
    return text


def plan(tier, seed_value):
    specs = []
    per = 6000 if tier == 'thorough' else 110
    for k in range(16):
        specs.append({'seed': seed_value * 1000 + k, 'examples': per,
                      'via_web': False})
        specs.append({'seed': seed_value * 1000 + 50 + k,
                      'examples': max(20, per // 5), 'via_web': True})
    return specs


def run_shard(spec):
    acc = Acc()
    ok = 'trailing_backslash' not in runner.avoid_flags(ID)

    @seed(spec['seed'])
    @progbase.hyp_settings(spec['examples'])
    @given(cases(ok))
    def run(case):
        check_case(acc, case, spec['via_web'])
    run()
    return acc


def replay(case):
    acc = Acc()
    check_case(acc, case['case'], case.get('via_web', False))
    return [(f['sig'], f['what']) for f in acc.failures.values()]
