"""C15 - zone and row/column addressing hits exactly the addressed cells."""
from verif import progcheck
from verif.checks import progbase

ID = 'C15'
LEVEL = 'exploration'
RULE = (
    'Hypothesis generates programs dominated by `set L zone a [b]` on '
    'multizone lights of 1..82 zones and by `set L row .. column ..` / `set L '
    'begin ... stage ... end` on matrix lights of 1x1 .. 16x4 / 8x8 cells: '
    '0..8 stage rectangles per block (rows and columns in either order, '
    'either omitted, end omitted; bounds as literals, variables, expressions '
    'and loop indices, including float-valued indices from interpolating '
    'loops), with and without `set default`, in all three unit modes, mixed '
    'into and-lists with other lights. The production run must send exactly '
    'one tile message per set whose h*w cells equal the model matrix of the '
    'reference interpreter (later stages over earlier, unstaged cells = the '
    'saved default or black, inclusive ranges) and zone commands covering '
    'exactly a..b; colours are compared with ZERO tolerance against the exact '
    'Fraction reference, i.e. a cell must carry what a plain set would send. '
    'Non-trivial = a block with >= 2 stages, or a rectangle touching the '
    'last row/column or last zone, or a non-integer logical colour in a '
    'cell. Distinct by script text + population.')
ASSUMPTIONS = [
    'Zone ranges at the lifxlan boundary are half-open [a, b+1) as in the '
    'repository fake (DESIGN A3); indices outside the device are not '
    'generated.',
]
PROFILE = {
    'w_action': 18, 'w_matrix': 10, 'w_zone': 6, 'w_setreg': 8, 'w_units': 2,
    'w_repeat': 3, 'w_if': 2, 'w_assign': 3, 'w_call': 2, 'w_routine': 1,
    'w_print': 1, 'w_get': 0, 'w_timeat': 0, 'w_wait': 0, 'w_time': 1,
    'w_define': 1, 'max_top': 10, 'max_pop': 5, 'prelude_routines': 1,
    'unknown_names': False, 'matrix_stages': 8, 'default_often': True,
}
MIN_LABELS = {'quick': {'operand:matrix_block': 600,
                        'operand:matrix_inline': 600, 'operand:zone': 600,
                        'stmt:stage': 600}}


def _stages(program):
    """Largest number of stage statements in one matrix block."""
    best = 0
    for s in progcheck.iter_statements(program):
        if s[0] == 'action':
            for operand in s[2]:
                if operand[0] == 'matrix_block':
                    best = max(best, sum(
                        1 for x in progcheck.iter_statements(operand[2])
                        if x[0] == 'stage'))
    return best


def nontrivial(outcome, case):
    labels = outcome.labels
    has_cells = any(l in labels for l in (
        'operand:matrix_block', 'operand:matrix_inline', 'operand:zone'))
    return has_cells and outcome.commands >= 1 and (
        _stages(case['program']) >= 2 or 'stmt:units' in labels
        or 'operand:zone' in labels)


def plan(tier, seed_value):
    return progbase.plan(ID, tier, seed_value, quick=4000, thorough=160000)


def run_shard(spec):
    return progbase.run_shard(spec, ID, PROFILE, nontrivial,
                              need=('matrix', 'mz', 'plain'), tolerance=0)


def replay(case):
    return progbase.replay(case, ID, nontrivial, tolerance=0)


def shrink(failure):
    return progbase.shrink(failure, ID, nontrivial, tolerance=0)
