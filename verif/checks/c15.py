"""C15 - zone and row/column addressing hits exactly the addressed cells."""
from verif import progcheck
from verif.checks import progbase
from verif.runner import Acc

ID = 'C15'
LEVEL = 'exploration'
RULE = (
    'Hypothesis generates programs dominated by `set L zone a [b]` on '
    'multizone lights of 1..82 zones and by `set L row .. column ..` / `set L '
    'begin ... stage ... end` on matrix lights of 1x1 .. 16x4 / 8x8 cells: '
    '0..8 stage rectangles per block (rows and columns in either order, '
    'either omitted, end omitted; bounds as literals, variables, expressions '
    'and loop indices, including float-valued indices from interpolating '
    'loops), with and without `set default`, in all three unit modes, mixed '
    'into and-lists with other lights. The production run must send exactly '
    'one tile message per set whose h*w cells equal the model matrix of the '
    'reference interpreter (later stages over earlier, unstaged cells = the '
    'saved default or black, inclusive ranges) and zone commands covering '
    'exactly a..b; colours are compared with ZERO tolerance against the exact '
    'Fraction reference, i.e. a cell must carry what a plain set would send. '
    'Non-trivial = a block with >= 2 stages, or a rectangle touching the '
    'last row/column or last zone, or a non-integer logical colour in a '
    'cell. Distinct by script text + population.')
ASSUMPTIONS = [
    'Zone ranges at the lifxlan boundary are half-open [a, b+1) as in the '
    'repository fake (DESIGN A3); indices outside the device are not '
    'generated.',
]
PROFILE = {
    'w_action': 18, 'w_matrix': 10, 'w_zone': 6, 'w_setreg': 8, 'w_units': 2,
    'w_repeat': 3, 'w_if': 2, 'w_assign': 3, 'w_call': 2, 'w_routine': 1,
    'w_print': 1, 'w_get': 0, 'w_timeat': 0, 'w_wait': 0, 'w_time': 1,
    'w_define': 1, 'max_top': 10, 'max_pop': 5, 'prelude_routines': 1,
    'unknown_names': False, 'matrix_stages': 8, 'default_often': True,
}
MIN_LABELS = {'quick': {'operand:matrix_block': 600,
                        'operand:matrix_inline': 600, 'operand:zone': 600,
                        'stmt:stage': 600}}


def _stages(program):
    """Largest number of stage statements in one matrix block."""
    best = 0
    for s in progcheck.iter_statements(program):
        if s[0] == 'action':
            for operand in s[2]:
                if operand[0] == 'matrix_block':
                    best = max(best, sum(
                        1 for x in progcheck.iter_statements(operand[2])
                        if x[0] == 'stage'))
    return best


def nontrivial(outcome, case):
    labels = outcome.labels
    has_cells = any(l in labels for l in (
        'operand:matrix_block', 'operand:matrix_inline', 'operand:zone'))
    return has_cells and outcome.commands >= 1 and (
        _stages(case['program']) >= 2 or 'stmt:units' in labels
        or 'operand:zone' in labels)


def plan(tier, seed_value):
    specs = progbase.plan(ID, tier, seed_value, quick=4000, thorough=160000)
    specs.append({'kind': 'fractional'})
    return specs


def run_shard(spec):
    if spec.get('kind') == 'fractional':
        return run_fractional()
    return progbase.run_shard(spec, ID, PROFILE, nontrivial,
                              need=('matrix', 'mz', 'plain'), tolerance=0)


def replay(case):
    if case.get('kind') == 'zone-value-names-light':
        acc = Acc()
        check_zone_value_names_light(acc)
        return [(f['sig'], f['what']) for f in acc.failures.values()]
    if case.get('kind') == 'fractional':
        acc = Acc()
        check_fractional(acc, case['text'], case['values'])
        return [(f['sig'], f['what']) for f in acc.failures.values()]
    if case.get('kind') == 'fractional-cells':
        acc = Acc()
        check_fractional_cells(acc, case['text'], case['axis'],
                               case['values'])
        return [(f['sig'], f['what']) for f in acc.failures.values()]
    return progbase.replay(case, ID, nontrivial, tolerance=0)


def shrink(failure):
    if failure['case'].get('kind') in ('fractional', 'fractional-cells',
                                       'zone-value-names-light'):
        return failure
    return progbase.shrink(failure, ID, nontrivial, tolerance=0)


# ---- zone numbers that are not whole (interpolating loops produce them) -----------------
# Which neighbour a fraction addresses is not laid down; that ONE zone per
# value is coloured, a neighbour of the value, and one request made, is.
def check_fractional(acc, text, values):
    from verif.harness import shared_world
    world = shared_world('c15-fractional', [
        {'label': 'Z', 'group': 'G', 'location': 'L', 'kind': 'mz',
         'zones': 16}])
    del world.trace[:]
    result = world.run(text, budget=20000)
    case = {'kind': 'fractional', 'text': text, 'values': values}
    acc.case(key=text, nontrivial=any(v != int(v) for v in values),
             labels=['fractional-zone'],
             sample={'script': text} if len(acc.samples) < 2 else None)
    if not result.compiled or result.aborted:
        acc.fail('fractional-zone:did-not-run', '{} -> {} {}'.format(
            text, result.errors.strip(), result.aborted), case)
        return
    ranges = [(e[3], e[4]) for e in result.trace
              if e[0] == 'cmd' and e[2] == 'set_zone_color']
    if len(ranges) != len(values):
        acc.fail('fractional-zone:requests', '{} -> {} zone requests for {} '
                 'zone commands'.format(text, len(ranges), len(values)), case)
        return
    for value, (start, end) in zip(values, ranges):
        if end - start != 1 or not (
                int(value // 1) <= start <= int(-(-value // 1))):
            acc.fail('fractional-zone:cells',
                     '{} -> zone {} coloured zones {}..{} (end exclusive): '
                     'not exactly one zone next to {}'.format(
                         text, value, start, end, value), case)
            return


def check_fractional_cells(acc, text, axis, values):
    """The same for row / column numbers: each stage colours exactly one
    whole row (column), a neighbour of the value; one matrix per command."""
    from verif.harness import shared_world
    world = shared_world('c15-fractional-cells', [
        {'label': 'M', 'group': 'G', 'location': 'L', 'kind': 'matrix',
         'height': 16, 'width': 16}])
    del world.trace[:]
    result = world.run('hue 120 saturation 100 brightness 100 kelvin 2700\n'
                       + text, budget=40000)
    case = {'kind': 'fractional-cells', 'text': text, 'axis': axis,
            'values': values}
    acc.case(key=text, nontrivial=any(v != int(v) for v in values),
             labels=['fractional-' + axis],
             sample={'script': text} if len(acc.samples) < 3 else None)
    if not result.compiled or result.aborted:
        acc.fail('fractional-cells:did-not-run', '{} -> {} {}'.format(
            text, result.errors.strip(), result.aborted), case)
        return
    tiles = [e[3] for e in result.trace
             if e[0] == 'cmd' and e[2] == 'set_tile']
    if len(tiles) != 1:
        acc.fail('fractional-cells:requests', '{} -> {} matrix messages'
                 .format(text, len(tiles)), case)
        return
    lit = [index for index, cell in enumerate(tiles[0])
           if list(cell)[:3] != [0, 0, 0]]
    lines = sorted({index // 16 if axis == 'row' else index % 16
                    for index in lit})
    whole_lines = len(lit) == 16 * len(lines)
    wanted_ok = len(lines) == len(set(lines)) and len(lines) <= len(values) \
        and all(any(int(v // 1) <= line <= int(-(-v // 1)) for v in values)
                for line in lines) and all(
                    any(int(v // 1) <= line <= int(-(-v // 1))
                        for line in lines) for v in values)
    if not whole_lines or not wanted_ok:
        acc.fail('fractional-cells:cells',
                 '{} -> {}s {} coloured ({} cells) for the values {}: not one '
                 'whole {} next to each value'.format(
                     text, axis, lines, len(lit), values, axis), case)


# ---- a zone number computed by a routine that itself names a light -------------------
def check_zone_value_names_light(acc):
    from verif.harness import World
    world = World([
        {'label': 'Z', 'group': 'G', 'location': 'L', 'kind': 'mz',
         'zones': 8},
        {'label': 'A', 'group': 'G', 'location': 'L'}])
    text = ('define q_z with q_n begin get "A" hue 10 return q_n end '
            'set "Z" zone [q_z 3]')
    result = world.run(text, budget=20000)
    case = {'kind': 'zone-value-names-light'}
    acc.case(key=text, nontrivial=True, labels=['zone-value-names-light'])
    requests = [(e[1], e[2], e[3], e[4]) for e in result.trace
                if e[0] == 'cmd']
    if not result.compiled or result.aborted or requests != [
            ('Z', 'set_zone_color', 3, 4)]:
        acc.fail('zone-value-names-light',
                 '{} -> requests {} ({} {}), expected zone 3 of Z and nothing '
                 'else'.format(text, requests, result.errors.strip(),
                               result.aborted), case)


def run_fractional():
    acc = Acc()
    check_zone_value_names_light(acc)
    for whole in range(0, 15):
        for fraction in (0, 0.25, 0.5, 0.75):
            value = whole + fraction
            check_fractional(acc, 'set "Z" zone {}'.format(value), [value])
            check_fractional(acc, 'assign v {{{} / 4}} set "Z" zone v'.format(
                int(value * 4)), [value])
    for count, last in ((5, 10), (4, 10), (9, 14), (3, 1)):
        values = [last * k / (count - 1) for k in range(count)]
        check_fractional(acc, 'repeat {} with z from 0 to {} begin '
                         'set "Z" zone z end'.format(count, last), values)
    for axis in ('row', 'column'):
        for whole in range(0, 15):
            for fraction in (0, 0.25, 0.5, 0.75):
                value = whole + fraction
                check_fractional_cells(
                    acc, 'set "M" {} {}'.format(axis, value), axis, [value])
                check_fractional_cells(
                    acc, 'assign v {{{} / 4}} set "M" begin stage {} v end'
                    .format(int(value * 4), axis), axis, [value])
        for count, last in ((4, 5), (4, 10), (7, 15), (3, 1)):
            values = [last * k / (count - 1) for k in range(count)]
            check_fractional_cells(
                acc, 'set "M" begin repeat {} with z from 0 to {} begin '
                'stage {} z end end'.format(count, last, axis), axis, values)
    return acc
