"""C11 - time-of-day patterns match exactly the times they denote; `or` is OR."""
import itertools

from hypothesis import given, seed, settings, strategies as st, HealthCheck

from verif import env
from verif.lang import timepat
from verif.runner import Acc

ID = 'C11'
LEVEL = 'exploration'
RULE = (
    'Enumerated: every string over "0-9*:" up to the tier\'s length bound is '
    'compiled as `time at <s> on all`, `define m <s>` and `assign v <s>` and '
    'must be accepted iff it is a well-formed pattern denoting >= 1 minute '
    '("*:*" may go either way; pure numbers are legitimate values for '
    'define/assign); every accepted pattern is run (`time at <s> wait`) and the '
    '1440-minute table of the object handed to Clock.wait_until must equal the '
    'independent denotation; `or` lists (exhaustive over reduced alphabets, '
    'Hypothesis-generated over the full set) must equal the union of pairs; '
    'generated scripts reuse literal/macro patterns in loops and check every '
    'later table; the production Clock.wait_until is run on a wall clock that '
    'advances by a generated amount at every look (none, 1 ms, a third of a '
    'tick) from start times near the turn of a minute or hour and may only '
    'return at an instant some listed pattern denotes, and must not wait on '
    'past one. Non-trivial = a pattern with a wildcard digit next to a '
    'fixed digit, or an `or` list whose union differs from the product of the '
    'united hour and minute sets, or a script that reuses a pattern after it '
    'appeared in an `or` list; distinct by pattern text / script text.')
ASSUMPTIONS = [
    'A pattern field of two characters is compared with the two-digit '
    'rendering of the hour/minute; a one-digit hour field with the hour value.',
    'Acceptance of "*:*" is not asserted (manual calls it invalid, property '
    'does not).',
]

ALPHABET = '0123456789*:'
CONTEXTS = ('time at {} on all', 'define m {}', 'assign v {}')
CHUNK = 40000


def plan(tier, seed_value):
    specs = []
    max_len = 6 if tier == 'thorough' else 4
    total = sum(len(ALPHABET) ** n for n in range(max_len + 1))
    for start in range(0, total, CHUNK):
        specs.append({'kind': 'strings', 'max_len': max_len,
                      'start': start, 'stop': min(total, start + CHUNK)})
    patterns = timepat.well_formed_patterns()
    for start in range(0, len(patterns), 1000):
        specs.append({'kind': 'tables', 'start': start,
                      'stop': min(len(patterns), start + 1000)})
    pair_alpha = '01259*' if tier == 'thorough' else '05*'
    n_pair = len(_valid(pair_alpha))
    for start in range(0, n_pair, max(1, n_pair // 16)):
        specs.append({'kind': 'pairs', 'alphabet': pair_alpha,
                      'start': start,
                      'stop': min(n_pair, start + max(1, n_pair // 16))})
    n_triple = len(_valid('05*'))
    if tier == 'thorough':
        for start in range(0, n_triple, max(1, n_triple // 16)):
            specs.append({'kind': 'triples', 'alphabet': '05*',
                          'start': start,
                          'stop': min(n_triple, start + max(1, n_triple // 16))})
    for offset in range(4):
        specs.append({'kind': 'other_digits', 'offset': offset,
                      'count': 800 if tier == 'thorough' else 60})
    shards = 16
    per = 3000 if tier == 'thorough' else 300
    for k in range(shards):
        specs.append({'kind': 'random_alts', 'seed': seed_value * 1000 + k,
                      'examples': per})
        specs.append({'kind': 'orders', 'seed': seed_value * 1000 + 100 + k,
                      'examples': per})
        specs.append({'kind': 'real_clock', 'seed': seed_value * 1000 + 300 + k,
                      'examples': per})
        if tier == 'quick':
            specs.append({'kind': 'long_strings',
                          'seed': seed_value * 1000 + 200 + k,
                          'examples': 1500})
    return specs


def _valid(alphabet):
    return [p for p in timepat.well_formed_patterns(alphabet)
            if timepat.denotation(p)]


_world = None


def _get_world():
    from verif.harness import shared_world
    return shared_world('c11', [])


def _compile(text):
    """('accept'|'reject'|'crash', detail)"""
    from bardolph.parser.parse import Parser
    _get_world()
    parser = Parser()
    try:
        ok = parser.parse(text)
    except Exception as ex:
        return 'crash', '{}: {}'.format(type(ex).__name__, ex)
    if ok:
        return 'accept', ''
    return 'reject', parser.get_errors()


def _is_number(text):
    return text != '' and all(c in timepat.DIGITS for c in text)


def check_string(acc, text):
    """Accept/reject oracle for one string in the three contexts."""
    den = timepat.denotation(text)
    nontrivial = den is not None and any(
        '*' in f and len(f) == 2 for f in text.split(':'))
    for context in CONTEXTS:
        script = context.format(text)
        if text == '':
            # "time at on all" etc.: no pattern at all; must not be accepted
            # as a time wait.  define/assign without a value likewise.
            expect = 'reject'
        elif den is not None:
            if text == '*:*':
                expect = None
            else:
                expect = 'accept' if den else 'reject'
        elif _is_number(text) and not context.startswith('time at'):
            continue            # a plain number is a legitimate value here
        else:
            expect = 'reject'
        got, detail = _compile(script)
        acc.case(key=script, nontrivial=nontrivial,
                 labels=('ctx:' + context.split(' ')[0], 'expect:' + str(expect)),
                 sample={'script': script, 'expected': expect, 'got': got}
                 if nontrivial and acc.evaluations % 977 == 0 else None)
        if got == 'crash':
            acc.fail('compile-crash:' + context.split(' ')[0],
                     'compiler raised {} on {!r}'.format(detail, script),
                     {'kind': 'string', 'text': text})
        elif expect is not None and got != expect:
            if den is None:
                why = 'malformed'
            elif not den:
                why = 'unsatisfiable'
            else:
                why = 'valid'
            acc.fail('{}-{}:{}'.format(got, why, context.split(' ')[0]),
                     '{!r} was {}ed but the pattern is {}'.format(
                         script, got, why),
                     {'kind': 'string', 'text': text})
        elif got == 'reject' and 'Line ' not in detail:
            acc.fail('reject-without-line:' + context.split(' ')[0],
                     '{!r} rejected without a line-numbered message'.format(
                         script), {'kind': 'string', 'text': text})


def _tables(script):
    """Run the script; return list of wait_until tables or an error string."""
    world = _get_world()
    del world.trace[:]
    result = world.run(script, budget=20000)
    if not result.compiled:
        return 'compile: ' + result.errors.strip()
    if result.aborted:
        return 'aborted: ' + result.aborted
    if result.budget_exhausted:
        return 'budget'
    return [event[1] for event in result.trace if event[0] == 'wait_until']


def _describe(expected, got):
    missing = sorted(expected - got)
    extra = sorted(got - expected)
    text = []
    if missing:
        text.append('missing {} e.g. {}'.format(len(missing), missing[:3]))
    if extra:
        text.append('extra {} e.g. {}'.format(len(extra), extra[:3]))
    return ', '.join(text), ('missing' if missing else '') + (
        'extra' if extra else '')


def check_table(acc, pattern):
    den = timepat.denotation(pattern)
    if not den or pattern == '*:*':
        return
    script = 'time at {} wait'.format(pattern)
    tables = _tables(script)
    nontrivial = '*' in pattern and pattern not in ('*:*',)
    acc.case(key=script, nontrivial=nontrivial, labels=('table',),
             sample={'script': script, 'minutes_denoted': len(den)}
             if acc.evaluations % 499 == 0 else None)
    if isinstance(tables, str) or len(tables) != 1:
        acc.fail('table-run', '{!r}: {}'.format(script, tables),
                 {'kind': 'table', 'pattern': pattern})
        return
    if tables[0] != den:
        text, kind = _describe(den, tables[0])
        acc.fail('table-' + kind, '{!r} matches the wrong minutes: {}'.format(
            script, text), {'kind': 'table', 'pattern': pattern})


def check_alts(acc, patterns, label):
    dens = [timepat.denotation(p) for p in patterns]
    expected = frozenset().union(*dens)
    hours = {h for d in dens for h, _ in d}
    minutes = {m for d in dens for _, m in d}
    nontrivial = len(expected) != len(hours) * len(minutes)
    script = 'time at {} wait'.format(' or '.join(patterns))
    tables = _tables(script)
    acc.case(key=script, nontrivial=nontrivial,
             labels=(label, 'alts:{}'.format(len(patterns))),
             sample={'script': script, 'minutes_denoted': len(expected)}
             if nontrivial and acc.evaluations % 997 == 0 else None)
    case = {'kind': 'alts', 'patterns': list(patterns)}
    if isinstance(tables, str) or len(tables) != 1:
        acc.fail('alts-run', '{!r}: {}'.format(script, tables), case)
    elif tables[0] != expected:
        text, kind = _describe(expected, tables[0])
        acc.fail('alts-' + kind, '{!r} waits for the wrong minutes: {}'.format(
            script, text), case)


# ---- generated orders of use ------------------------------------------------
_PATTERNS = None


def _pattern_strategy():
    global _PATTERNS
    if _PATTERNS is None:
        _PATTERNS = st.sampled_from(
            [p for p in timepat.well_formed_patterns() if p != '*:*'
             and timepat.denotation(p)])
    return _PATTERNS


@st.composite
def order_scripts(draw):
    pat = _pattern_strategy()
    literals = draw(st.lists(pat, min_size=1, max_size=3))
    macros = draw(st.lists(pat, min_size=0, max_size=2))
    names = ['m{}'.format(i) for i in range(len(macros))]
    pool = [('lit', p) for p in literals] + [
        ('mac', n) for n in names]
    statements = []
    for _ in range(draw(st.integers(2, 6))):
        alts = draw(st.lists(st.sampled_from(pool), min_size=1, max_size=3))
        loops = draw(st.sampled_from([0, 0, 1, 2, 3]))
        statements.append((alts, loops))
    return {'literals': literals, 'macros': macros, 'statements': statements}


def render_order(case):
    lines = []
    macro_value = {}
    for i, value in enumerate(case['macros']):
        lines.append('define m{} {}'.format(i, value))
        macro_value['m{}'.format(i)] = value
    expected = []
    reuse_after_or = False
    seen_in_or = set()
    for alts, loops in case['statements']:
        texts = [a[1] for a in alts]
        values = [macro_value.get(t, t) for t in texts]
        union = frozenset().union(*[timepat.denotation(v) for v in values])
        if any(t in seen_in_or for t in texts):
            reuse_after_or = True
        if len(alts) > 1:
            seen_in_or.update(texts)
        stmt = 'time at {} wait'.format(' or '.join(texts))
        if loops:
            lines.append('repeat {} begin {} end'.format(loops, stmt))
            expected += [union] * loops
            if len(alts) > 1 and loops > 1:
                reuse_after_or = True
        else:
            lines.append(stmt)
            expected.append(union)
    return '\n'.join(lines), expected, reuse_after_or


def check_order(acc, case):
    case = {'literals': list(case['literals']), 'macros': list(case['macros']),
            'statements': [[[list(a) for a in alts], loops]
                           for alts, loops in case['statements']]}
    script, expected, reuse = render_order(case)
    tables = _tables(script)
    acc.case(key=script, nontrivial=reuse, labels=('orders',),
             sample={'script': script} if reuse and
             acc.evaluations % 211 == 0 else None)
    payload = {'kind': 'order', 'case': case}
    if isinstance(tables, str):
        acc.fail('order-run', '{!r}: {}'.format(script, tables), payload)
        return
    if len(tables) != len(expected):
        acc.fail('order-count', '{!r}: {} waits, expected {}'.format(
            script, len(tables), len(expected)), payload)
        return
    for index, (want, got) in enumerate(zip(expected, tables)):
        if want != got:
            text, kind = _describe(want, got)
            acc.fail('order-' + kind,
                     'wait #{} of {!r} is for the wrong minutes: {}'.format(
                         index, script, text), payload)
            return


# ---- the production Clock's time-of-day wait on a wall clock that moves ------------
@st.composite
def clock_cases(draw):
    hour = draw(st.integers(0, 23))
    minute = draw(st.sampled_from([58, 59, 59, 0, 29, draw(st.integers(0, 59))]))
    second = draw(st.sampled_from([0, 30, 50, 59, 59.5]))
    tick = draw(st.sampled_from([0.25, 1.0, 5.0, 20.0]))
    read_cost = draw(st.sampled_from([0, 0, 0.001, tick / 3, tick / 3]))
    patterns = draw(st.lists(_pattern_strategy(), min_size=0, max_size=2))
    # a time shortly ahead, and the same minute in the hour that is ending
    ahead = (hour * 60 + minute + draw(st.integers(1, 4))) % 1440
    patterns.append('{}:{:02d}'.format(ahead // 60, ahead % 60))
    if draw(st.booleans()):
        patterns.append('{}:{:02d}'.format(hour, ahead % 60))
    if draw(st.booleans()):
        patterns.append('{}:00'.format(hour))
    return {'start': [hour, minute, second], 'tick': tick,
            'read_cost': read_cost, 'patterns': draw(st.permutations(patterns))}


def check_clock(acc, case):
    """Clock.wait_until may only return at an instant the pattern denotes,
    and not sleep through one, whatever time passes between two looks at the
    wall clock."""
    import datetime as real_datetime
    import bardolph.lib.clock as clock_module
    from bardolph.lib.time_pattern import TimePattern
    _get_world()
    pattern = None
    table = set()
    for text in case['patterns']:
        one = TimePattern.from_string(text)
        if one is None:
            raise env.HarnessError('pattern {} not accepted'.format(text))
        if pattern is None:
            pattern = one
        else:
            pattern.union(one)      # in place, as the VM does for `or`
        table |= set(timepat.denotation(text))
    hour, minute, second = case['start']
    # integer microseconds since midnight of day 0: no float drift
    tick_us = int(round(case['tick'] * 1000000))
    cost_us = int(case['read_cost'] * 1000000)
    state = {'t': int(round((hour * 3600 + minute * 60 + second) * 1000000)),
             'polls': 0}
    reads = []          # (poll number, microseconds)

    class WallClock:
        @staticmethod
        def now():
            t = state['t']
            reads.append((state['polls'], t))
            state['t'] += cost_us
            return real_datetime.datetime(2026, 1, 5) + \
                real_datetime.timedelta(microseconds=t)

    def wait(self):
        state['polls'] += 1
        state['t'] += tick_us
        return state['polls'] < 4000
    clock = clock_module.Clock()
    saved = clock_module.datetime, clock_module.Clock.wait
    clock_module.datetime = WallClock
    clock_module.Clock.wait = wait
    try:
        clock.wait_until(pattern)
    finally:
        clock_module.datetime, clock_module.Clock.wait = saved

    def hm(t):
        return (t // 3600000000) % 24, (t // 60000000) % 60

    def denoted(t):
        return hm(t) in table
    straddle = False
    payload = {'kind': 'clock', 'case': case}
    text = ' or '.join(case['patterns'])
    if state['polls'] >= 4000:
        acc.case(key=repr(case), labels=['real-clock', 'not-reached'])
        return
    last = [t for poll, t in reads if poll == state['polls']]
    earlier = [t for poll, t in reads if poll < state['polls']]
    straddle = len({hm(t) for t in last}) > 1
    acc.case(key=repr(case), nontrivial=state['polls'] > 0,
             labels=['real-clock'] + (['minute-changes-during-a-look']
                                      if straddle else []),
             sample={'patterns': text, 'start': case['start'],
                     'tick': case['tick'], 'read_cost': case['read_cost'],
                     'polls': state['polls']}
             if straddle and len(acc.samples) < 4 else None)

    def clock_text(t):
        return '{}:{:02d}:{:06.3f}'.format(*hm(t), (t % 60000000) / 1e6)
    if not any(denoted(t) for t in last):
        acc.fail('wait-ended-at-undenoted-time',
                 'time at {} started {}:{:02d}:{} ended when the wall clock '
                 'read {} - no listed pattern denotes that'.format(
                     text, hour, minute, second,
                     ' / '.join(clock_text(t) for t in last)), payload)
    elif case['read_cost'] == 0 and any(denoted(t) for t in earlier):
        first = next(t for t in earlier if denoted(t))
        acc.fail('wait-slept-through-a-denoted-time',
                 'time at {} looked at the clock at {} and went on waiting'
                 .format(text, clock_text(first)), payload)


# ---- digits that are not ASCII ---------------------------------------------------------------
OTHER_DIGITS = ['０１２３４５６７８９', '٠١٢٣٤٥٦٧٨٩', '०१२३४५६७८९']


def check_other_digits(acc, pattern, alphabet, positions):
    """A pattern written with decimal digits of another script: rejected, or
    accepted with the meaning of its ASCII spelling - never accepted as a
    pattern that matches no time."""
    chars = list(pattern)
    digit_positions = [i for i, c in enumerate(chars) if c.isdigit()]
    chosen = [p for k, p in enumerate(digit_positions)
              if positions == 'all' or k == positions % len(digit_positions)]
    for position in chosen:
        chars[position] = alphabet[int(chars[position])]
    text = ''.join(chars)
    case = {'kind': 'other-digits', 'pattern': pattern, 'text': text}
    acc.case(key='digits:' + text, nontrivial=True,
             labels=['non-ascii-digits'],
             sample={'written': text, 'ascii': pattern}
             if len(acc.samples) < 2 else None)
    status, detail = _compile('time at {} on all'.format(text))
    if status == 'crash':
        acc.fail('other-digits:crash', '{!r}: {}'.format(text, detail), case)
    elif status == 'accept':
        tables = _tables('time at {} wait'.format(text))
        want = frozenset(timepat.denotation(pattern))
        if not isinstance(tables, list) or len(tables) != 1 or \
                frozenset(tables[0]) != want:
            acc.fail('other-digits:accepted-with-another-meaning',
                     'time at {} is accepted but matches {} (written with '
                     'ASCII digits, {} denotes {} minutes)'.format(
                         text, _describe(want, frozenset(tables[0]))
                         if isinstance(tables, list) and tables else tables,
                         pattern, len(want)), case)


def _nth_string(index, max_len):
    base = len(ALPHABET)
    for length in range(max_len + 1):
        count = base ** length
        if index < count:
            chars = []
            for _ in range(length):
                index, digit = divmod(index, base)
                chars.append(ALPHABET[digit])
            return ''.join(reversed(chars))
        index -= count
    raise IndexError


def _settings(examples):
    return settings(max_examples=examples, database=None, deadline=None,
                    derandomize=False, report_multiple_bugs=False,
                    suppress_health_check=list(HealthCheck))


def run_shard(spec):
    acc = Acc()
    kind = spec['kind']
    if kind == 'strings':
        for index in range(spec['start'], spec['stop']):
            check_string(acc, _nth_string(index, spec['max_len']))
        acc.extra['strings_enumerated'] = spec['stop'] - spec['start']
    elif kind == 'tables':
        patterns = timepat.well_formed_patterns()
        for pattern in patterns[spec['start']:spec['stop']]:
            check_string(acc, pattern)
            check_table(acc, pattern)
        acc.extra['well_formed_patterns'] = spec['stop'] - spec['start']
    elif kind in ('pairs', 'triples'):
        valid = _valid(spec['alphabet'])
        arity = 2 if kind == 'pairs' else 3
        for first in valid[spec['start']:spec['stop']]:
            for rest in itertools.product(valid, repeat=arity - 1):
                check_alts(acc, (first,) + rest,
                           'exhaustive-{}-{}'.format(kind, spec['alphabet']))
    elif kind == 'random_alts':
        pat = _pattern_strategy()

        @seed(spec['seed'])
        @_settings(spec['examples'])
        @given(st.lists(pat, min_size=2, max_size=4))
        def run(patterns):
            check_alts(acc, tuple(patterns), 'random-alts')
        run()
    elif kind == 'orders':
        @seed(spec['seed'])
        @_settings(spec['examples'])
        @given(order_scripts())
        def run(case):
            check_order(acc, case)
        run()
    elif kind == 'other_digits':
        patterns = [p for p in timepat.well_formed_patterns()
                    if timepat.denotation(p) and any(c.isdigit() for c in p)]
        step = max(1, len(patterns) // spec['count'])
        for number, pattern in enumerate(patterns[spec['offset']::step]):
            for alphabet in OTHER_DIGITS:
                check_other_digits(acc, pattern, alphabet, 'all')
                check_other_digits(acc, pattern, alphabet, number)
    elif kind == 'real_clock':
        @seed(spec['seed'])
        @_settings(spec['examples'])
        @given(clock_cases())
        def run(case):
            check_clock(acc, case)
        run()
    elif kind == 'long_strings':
        @seed(spec['seed'])
        @_settings(spec['examples'])
        @given(st.text(ALPHABET, min_size=5, max_size=6))
        def run(text):
            check_string(acc, text)
        run()
    return acc


def finish(merged, tier):
    merged.extra['exhaustive'] = True
    merged.extra['exhaustive_parts'] = {
        'strings_up_to_length': 6 if tier == 'thorough' else 4,
        'all_15851_well_formed_patterns_x_1440_minutes': True,
        'or_pairs_alphabet': '01259*' if tier == 'thorough' else '05*',
        'or_triples_alphabet': '05*' if tier == 'thorough' else None,
    }


def replay(case):
    acc = Acc()
    kind = case['kind']
    if kind == 'string':
        check_string(acc, case['text'])
    elif kind == 'table':
        check_table(acc, case['pattern'])
    elif kind == 'alts':
        check_alts(acc, tuple(case['patterns']), 'replay')
    elif kind == 'other-digits':
        digits = next(a for a in OTHER_DIGITS
                      if any(c in a for c in case['text']))
        check_other_digits(acc, case['pattern'], digits, 'all')
    elif kind == 'clock':
        check_clock(acc, case['case'])
    elif kind == 'order':
        check_order(acc, {
            'literals': case['case']['literals'],
            'macros': case['case']['macros'],
            'statements': [([tuple(a) for a in alts], loops)
                           for alts, loops in case['case']['statements']]})
    return [(f['sig'], f['what']) for f in acc.failures.values()]
