"""C01 - running a script issues exactly the commands, waits and output its
source says (generated programs x populations vs. the reference interpreter)."""
from verif.checks import progbase

ID = 'C01'
LEVEL = 'exploration'
RULE = (
    'Hypothesis generates well-formed programs over the documented statement '
    'forms (register settings, units, set/on/off/get with all / light / group '
    '/ location / and-lists / zones / matrix rows-columns-blocks, wait, time, '
    'time at, assign, define, if / else-if / else, all repeat forms, break, '
    'routine definition / call / return, print / println / printf), nesting '
    'up to 3, together with a population of 0..6 simulated lights; the '
    'production parser+loader+VM runs the text against the simulated lifxlan '
    'boundary and the observable trace (device requests with raw arguments, '
    'delays, time-of-day waits, printed values) must equal the trace of an '
    'independent reference interpreter of the AST (colours within 1 raw '
    'unit, numbers within 1e-9). Non-trivial = the expected trace has >= 3 '
    'device commands and at least two different control constructs (if / '
    'loop / call) were executed with nesting depth >= 2; distinct by script '
    'text + population.')
ASSUMPTIONS = [
    'Reference semantics are DESIGN.md Appendix A (written from '
    'docs/language.rst); behaviour the manual leaves open is discarded, not '
    'asserted (DESIGN section 4).',
    '`get` results are fed to the reference in lock-step from the observed '
    'run (device state after a tie-rounded command is not modelled twice).',
    'Observation point is the simulated lifxlan boundary (DESIGN 2.2, A3).',
]
PROFILE = {}
MIN_LABELS = {'quick': {'stmt:routine': 200, 'loop-in-routine': 50,
                        'and-list': 100, 'operand:group': 100}}


def nontrivial(outcome, case):
    labels = outcome.labels
    constructs = sum(1 for k in ('if-true', 'if-else') if k in labels)
    constructs = (1 if constructs else 0) + (
        1 if any(l.startswith('loop:') for l in labels) else 0) + (
        1 if 'stmt:call' in labels else 0)
    deep = any(l in labels for l in ('depth:2', 'depth:3', 'depth:4'))
    return outcome.commands >= 3 and constructs >= 2 and deep


def plan(tier, seed_value):
    return progbase.plan(ID, tier, seed_value, quick=4000, thorough=200000)


def run_shard(spec):
    return progbase.run_shard(spec, ID, PROFILE, nontrivial)


def replay(case):
    return progbase.replay(case, ID, nontrivial)


def shrink(failure):
    return progbase.shrink(failure, ID, nontrivial)
