"""C12 - device faults and wrong-type targets never abort a script or disturb
other devices; discovery never raises."""
import itertools

from hypothesis import given, seed, strategies as st

from verif import env, progcheck  # noqa: F401
from verif.checks import progbase
from verif.lang import gen, printer
from verif.runner import Acc

ID = 'C12'
LEVEL = 'fault_enumeration'
RULE = (
    'Differential fault injection. Scripts from the C01 generator (unknown '
    'light / group / location names in every command kind; zone on plain and '
    'matrix lights; row/column/begin..end on plain and multizone lights; '
    'colour registers re-set after every get) run once fault-free - and that '
    'run must match the reference interpreter, which sends nothing for '
    'unknown names and capability mismatches - and once under a generated '
    'fault plan: for each device, the first k in {1,2,3} attempts of chosen '
    'logical requests raise WorkflowException at the lifxlan object (3 = '
    'never answers). Oracle: same printed output and delays; every device '
    'outside the plan has an identical request log; on a faulty device a '
    'request with k<3 is applied or abandoned, with k=3 abandoned, never '
    'attempted more than three times, each abandonment logged, and the rest '
    'of its log is unchanged. Discovery: exhaustive over (device, '
    'identification / zone-count / tile-size request, k = 1..3, before or '
    'after a successful discovery) plus a failing LAN scan: discover() and '
    'refresh() never raise, report failure when incomplete and leave every '
    'getter unchanged. Non-trivial = an injected fault (or mismatch) that is '
    'followed by >= 2 further commands to other devices. Distinct by script '
    'text + population + fault plan.')
ASSUMPTIONS = [
    'Fault model: WorkflowException raised by the lifxlan device object for '
    'individual attempts (not packet loss inside lifxlan).',
    'Logical request boundaries are marked by thin wrappers around the '
    'public methods of bardolph.controller.lifx_lan_light (behaviour '
    'unchanged).',
]
PROFILE = gen.profile(max_top=9, max_block=3, max_depth=2, max_pop=5,
                      prelude_routines=1, w_action=14, w_get=3, w_zone=4,
                      w_matrix=4, w_units=0, w_timeat=0, w_print=3,
                      reset_after_get=True)

_marked = False


def mark_logical_requests():
    """Wrap the retrying public methods so the simulated device knows where
    one logical request ends and the next begins."""
    global _marked
    if _marked:
        return
    from bardolph.controller import lifx_lan_light as lll

    def wrap(cls, name):
        original = getattr(cls, name)

        def marked(self, *args, **kwargs):
            impl = getattr(self, '_impl', None)
            if hasattr(impl, 'begin_logical'):
                impl.begin_logical()
            return original(self, *args, **kwargs)
        marked.__name__ = name
        setattr(cls, name, marked)
    for cls, names in ((lll.Light, ('get_color', 'set_color', 'get_power',
                                    'set_power')),
                       (lll.MultizoneLight, ('get_zone_colors',
                                             'set_zone_colors')),
                       (lll.MatrixLight, ('set_matrix', 'get_matrix'))):
        for name in names:
            if name in cls.__dict__:
                wrap(cls, name)
    _marked = True


@st.composite
def fault_cases(draw):
    case = draw(gen.programs(PROFILE, need=('plain', 'mz', 'matrix')))
    labels = [s['label'] for s in case['population']]
    plan = {}
    if labels:
        for label in draw(st.lists(st.sampled_from(labels), min_size=1,
                                   max_size=2, unique=True)):
            faults = {}
            for _ in range(draw(st.integers(1, 4))):
                faults[str(draw(st.integers(1, 12)))] = draw(
                    st.sampled_from([1, 2, 3, 3]))
            plan[label] = faults
    case['plan'] = plan
    return case


def run_once(population, text, plan):
    from verif.harness import World
    mark_logical_requests()
    fault_plan = {label: {int(k): v for k, v in faults.items()}
                  for label, faults in plan.items()}
    world = World(population)
    for device in world.lan.devices:
        device.logical = 0
        device.attempt_counts = {}
        original = device._request

        def counted(op, *args, _device=device, _original=original, **kw):
            _device.attempt_counts[_device.logical] = \
                _device.attempt_counts.get(_device.logical, 0) + 1
            return _original(op, *args, **kw)
        device._request = counted
    world.lan.fault_plan = fault_plan
    result = world.run(text, budget=100000)
    return world, result


def check_fault_case(acc, case):
    population, plan = case['population'], case['plan']
    base = {'program': case['program'], 'population': population}
    outcome = progcheck.run_case(base)
    if outcome.status == 'discard':
        acc.discard(outcome.why[:40])
        return
    text = outcome.text
    payload = dict(case, text=text)
    if outcome.status == 'fail':
        acc.fail('fault-free:' + outcome.sig, 'fault-free run: ' + outcome.what
                 + '\n--- script ---\n' + text, payload)
        acc.case(key=text, labels=['fault-free-mismatch'])
        return
    clean_world, clean = run_once(population, text, {})
    world, result = run_once(population, text, plan)
    problems = []
    labels = ['fault-case'] + sorted(
        l for l in outcome.labels if l in (
            'unknown-light', 'unknown-group', 'unknown-location',
            'zone-on-non-multizone', 'matrix-on-non-matrix', 'get-unknown'))

    def soft(trace):
        return [e for e in progcheck.observable(trace)
                if e[0] in ('delay', 'wait_until', 'out', 'nl')]
    if result.aborted or result.budget_exhausted:
        problems.append(('script-aborted', 'the script did not run to its '
                         'end under faults: {}'.format(result.aborted)))
    elif soft(result.trace) != soft(clean.trace):
        problems.append(('output-or-delays-differ',
                         'printed output / delays differ from the fault-free '
                         'run'))
    injected = 0
    followed = False
    giving_up = sum(1 for level, message in result.log_records
                    if 'Giving up' in message)
    abandoned_total = 0
    for device in world.lan.devices:
        reference = clean_world.lan.device(device.label).log
        faults = world.lan.fault_plan.get(device.label, {})
        if not faults:
            if [e[:2] if e[1] == 'get_color' else e for e in device.log] != [
                    e[:2] if e[1] == 'get_color' else e for e in reference]:
                problems.append((
                    'other-device-disturbed',
                    '{} is not in the fault plan but its request log '
                    'changed: {} vs {}'.format(
                        device.label, device.log[:4], reference[:4])))
            continue
        def norm(entry):
            # the colour a get returns depends on whether an earlier request
            # was abandoned; the request itself is what matters
            return entry[:2] if entry[1] == 'get_color' else entry
        applied_at = dict(zip(device.log_ordinals, device.log))
        abandoned = set()
        if len(device.log_ordinals) != len(set(device.log_ordinals)):
            problems.append(('request-applied-twice',
                             'a logical request to {} was applied more than '
                             'once: {}'.format(device.label,
                                               device.log_ordinals)))
        for ordinal, entry in enumerate(reference, start=1):
            k = faults.get(ordinal, 0)
            attempts = device.attempt_counts.get(ordinal, 0)
            if k:
                injected += 1
                if len([e for e in world.lan.log
                        if e[0] != device.label]) >= 2:
                    followed = True
            if attempts > 3:
                problems.append(('more-than-three-attempts',
                                 'request #{} to {} was attempted {} times'
                                 .format(ordinal, device.label, attempts)))
            got = applied_at.get(ordinal)
            if got is not None and norm(got) != norm(entry):
                problems.append(('request-changed',
                                 'request #{} to {} is {} but {} without '
                                 'faults'.format(ordinal, device.label, got,
                                                 entry)))
            if got is None:
                abandoned.add(ordinal)
                if k == 0:
                    problems.append((
                        'healthy-request-lost',
                        'request #{} {} to {} has no fault but was not '
                        'applied'.format(ordinal, entry[1], device.label)))
            elif k >= 3 and attempts <= 3:
                problems.append(('applied-despite-faults',
                                 'request #{} to {} was applied although its '
                                 'first three attempts failed'.format(
                                     ordinal, device.label)))
        extra = [o for o in device.log_ordinals if o > len(reference)]
        if extra:
            problems.append(('extra-requests',
                             '{} received {} requests more than in the '
                             'fault-free run'.format(device.label,
                                                     len(extra))))
        abandoned_total += len(abandoned)
    if giving_up < abandoned_total:
        problems.append(('abandoned-without-log',
                         '{} requests abandoned but {} "Giving up" log '
                         'records'.format(abandoned_total, giving_up)))
    nontrivial = injected > 0 and followed
    if injected:
        labels.append('fault-injected')
    if abandoned_total:
        labels.append('request-abandoned')
    acc.case(key=text + repr(sorted(plan.items())), nontrivial=nontrivial,
             labels=labels,
             sample={'script': text[:500], 'plan': plan,
                     'population': [[s['label'], s.get('kind')]
                                    for s in population]}
             if nontrivial and len(acc.samples) < 3 else None)
    for sig, what in problems[:1]:
        acc.fail(sig, '{}\nplan {}\n--- script ---\n{}'.format(
            what, plan, text), payload)


# ---- discovery ---------------------------------------------------------------------
DISC_POP = [
    {'label': 'P1', 'group': 'g1', 'location': 'l1', 'kind': 'plain'},
    {'label': 'Z1', 'group': 'g1', 'location': 'l2', 'kind': 'mz',
     'zones': 8},
    {'label': 'M1', 'group': 'g2', 'location': 'l1', 'kind': 'matrix',
     'height': 6, 'width': 5},
    {'label': 'P2', 'group': 'g2', 'location': 'l2', 'kind': 'plain'},
]
DISC_OPS = {
    'plain': ['get_label', 'get_group', 'get_location',
              'get_product_features'],
    'mz': ['get_label', 'get_group', 'get_location', 'get_product_features',
           'get_color_zones', 'classify'],
    'matrix': ['get_label', 'get_group', 'get_location',
               'get_product_features', 'get_device_chain', 'classify'],
}
RETRIED = ('get_color_zones', 'get_device_chain')


def directory_view(light_set):
    view = {'names': list(light_set.get_light_names()),
            'groups': {g: list(light_set.get_group_lights(g))
                       for g in light_set.get_group_names()},
            'locations': {loc: list(light_set.get_location_lights(loc))
                          for loc in light_set.get_location_names()},
            'count': light_set.get_light_count(), 'kinds': {}}
    for name in view['names']:
        light = light_set.get_light(name)
        view['kinds'][name] = [type(light).__name__, light.get_group(),
                               light.get_location()]
    return view


def check_discovery(acc, victim, op, k, phase, second_pop):
    from verif.harness import World
    world = World(DISC_POP if phase == 'after' else [], discover=True)
    light_set = world.light_set
    case = {'kind': 'discovery', 'victim': victim, 'op': op, 'k': k,
            'phase': phase, 'second_pop': second_pop}
    population = [dict(s) for s in DISC_POP]
    if second_pop == 'moved':
        for spec in population:
            spec['group'] = 'g9'
    world.lan.set_population(population)
    before = directory_view(light_set)
    if op == 'lan':
        world.lan.discover_fails = k
    else:
        world.lan.op_faults[(victim, op)] = k
    incomplete = op == 'lan' or op not in RETRIED or k >= 3
    # 'classify': lifxlan itself could not tell what the device is and hands
    # over a plain Light object; whether discovery then succeeds with a
    # plain light or reports failure is open - it must not raise
    free = op == 'classify'
    sig = what = None
    for call in ('discover', 'refresh'):
        try:
            outcome = getattr(light_set, call)()
        except Exception as ex:
            sig = call + '-raised'
            what = '{}() raised {!r}'.format(call, ex)
            break
        if call == 'discover' and not free:
            if incomplete and outcome:
                sig, what = 'reported-success', (
                    'discover() returned {!r} although {} {} never '
                    'answered'.format(outcome, victim, op))
                break
            if incomplete and directory_view(light_set) != before:
                sig, what = 'directory-changed', (
                    'an incomplete discovery changed the directory: {} -> {}'
                    .format(before, directory_view(light_set)))
                break
            if not incomplete and not outcome:
                sig, what = 'reported-failure', (
                    'discover() returned {!r} although every request was '
                    'answered within three attempts'.format(outcome))
                break
        # after the faults are used up, refresh must bring the full population
        world.lan.op_faults.clear()
        world.lan.discover_fails = 0
    if sig is None:
        names = list(light_set.get_light_names())
        if names != sorted(s['label'] for s in population):
            sig, what = 'recovery', (
                'after the fault cleared, refresh() left {}'.format(names))
    acc.case(key=repr(case), nontrivial=True,
             labels=['discovery', 'phase:' + phase, 'op:' + op],
             sample=case if len(acc.samples) < 2 else None)
    if sig:
        acc.fail('discovery:' + sig + ':' + op, '{} [{}]'.format(what, case),
                 case)


def discovery_cases():
    cases = []
    for spec in DISC_POP:
        for op in DISC_OPS[spec['kind']]:
            for k in (1, 2, 3):
                for phase in ('before', 'after'):
                    for second in ('same', 'moved'):
                        cases.append((spec['label'], op, k, phase, second))
    for k in (1, 2):
        for phase in ('before', 'after'):
            cases.append(('<lan>', 'lan', k, phase, 'moved'))
    return cases


def plan(tier, seed_value):
    specs = progbase.plan(ID, tier, seed_value, quick=2400, thorough=100000,
                          extra={'kind': 'faults'})
    specs.append({'kind': 'discovery'})
    return specs


def run_shard(spec):
    acc = Acc()
    if spec['kind'] == 'discovery':
        for case in discovery_cases():
            check_discovery(acc, *case)
        acc.extra['discovery_fault_points_enumerated'] = len(
            discovery_cases())
    else:
        @seed(spec['seed'])
        @progbase.hyp_settings(spec['examples'])
        @given(fault_cases())
        def run(case):
            check_fault_case(acc, case)
        run()
    return acc


def replay(case):
    acc = Acc()
    if case.get('kind') == 'discovery':
        check_discovery(acc, case['victim'], case['op'], case['k'],
                        case['phase'], case['second_pop'])
    else:
        check_fault_case(acc, case)
    return [(f['sig'], f['what']) for f in acc.failures.values()]
