"""C07 - transmitted colours and durations are in protocol range and exact."""
from fractions import Fraction

from hypothesis import given, seed, settings, strategies as st, HealthCheck

from verif import env  # noqa: F401
from verif.lang import units_exact as ux
from verif.runner import Acc

ID = 'C07'
LEVEL = 'exploration'
RULE = (
    'Three generators. (1) Exhaustive raw round trip: for every v in 0..65535 '
    'a plain light holds raw (v, 7919v+1 mod 65536, 40503v+77 mod 65536, k) - '
    'so each component takes all 65536 values - and `get "A" set "B"` in '
    'logical units must hand B the same raw colour (hue 65535 = 0); in rgb '
    'units the same colour within 2/65535 per RGB channel. (2) Grid: logical '
    'hue on a 0.01 grid over [-50,450], percentages over [-20,130], '
    'durations/times on a 1 ms grid, plus huge/tiny magnitudes, every value '
    'sent by `set "A"` and compared with the exact Fraction reference '
    '(nearest integer, both neighbours on a tie, clamped). (3) Hypothesis: '
    'unit mode x register values (in range, out of range, huge, negative) x '
    'job fresh or used before for a script ending in any unit mode x '
    'command kind (light, group, location, all, zone, inline matrix, block '
    'stage, default fill, on/off on light/group/location/all, and-lists); '
    'every request must pass the protocol oracle (ints in 0..65535 / '
    '0..2^32-1, valid power level, tile payload shape) and equal the exact '
    'reference; when a `units` switch lies between the settings and the '
    'command, settings inside the documented ranges (any angle as hue) must '
    'arrive as the same colour (<= 12/65535 per RGB channel, kelvin +-1). '
    'Non-trivial = at least one transmitted component that is not '
    'a conversion fixed point (not 0, not full scale); distinct by script.')
ASSUMPTIONS = [
    'Observation point is the lifxlan device object (SimDevice); zone ranges '
    'use the half-open convention of bardolph\'s own fake (DESIGN A3).',
    'rgb values outside 0..100 % have no defined colour: only range safety is '
    'asserted for them.',
    'Exact reference: fractions.Fraction of the literal\'s double; a value '
    'within 1e-6 of a rounding tie accepts both neighbours.',
]

POP = [
    {'label': 'A', 'group': 'G', 'location': 'L'},
    {'label': 'B', 'group': 'G', 'location': 'L'},
    {'label': 'Z', 'group': 'H', 'location': 'L', 'kind': 'mz', 'zones': 8},
    {'label': 'M', 'group': 'H', 'location': 'K', 'kind': 'matrix',
     'height': 3, 'width': 4},
]
REGS = ('hue', 'saturation', 'brightness', 'kelvin', 'red', 'green', 'blue',
        'duration', 'time')


def num(value):
    """Print a number the way the lexer reads it back (no exponent)."""
    if isinstance(value, int):
        return str(value)
    text = '{:.12f}'.format(value).rstrip('0')
    if text.endswith('.'):
        text += '0'
    if text.startswith('-0.') and float(text) == 0:
        text = text[1:]
    return text


def parse_num(text):
    return int(text) if '.' not in text else float(text)


# ---- (1) exhaustive raw round trip -------------------------------------------
def raw_of(v):
    return [v, (7919 * v + 1) % 65536, (40503 * v + 77) % 65536,
            1500 + (v % 7500)]


def run_roundtrip(acc, start, stop, mode):
    from verif.harness import World
    world = World(POP)
    dev_a, dev_b = world.lan.device('A'), world.lan.device('B')
    state = {'v': start}
    dev_a.color = raw_of(start)
    count = stop - start
    script = 'units {} repeat {} begin get "A" set "B" end'.format(mode, count)

    def after(entry):
        world._on_request(entry)
        if entry[0] == 'B' and entry[1] == 'set_color':
            state['v'] += 1
            dev_a.color = raw_of(state['v'] % 65536)
    world.lan.on_request = after
    result = world.run(script, budget=count * 200 + 1000)
    sets = [e for e in result.trace if e[0] == 'cmd' and e[1] == 'B']
    case = {'kind': 'roundtrip', 'start': start, 'stop': stop, 'mode': mode}
    if result.aborted or not result.compiled or len(sets) != count:
        acc.fail('roundtrip-run:' + mode,
                 'round-trip script did not run to its end: {} {} ({} of {} '
                 'sets)'.format(result.errors, result.aborted, len(sets),
                                count), case)
    for offset, event in enumerate(sets):
        v = start + offset
        want = raw_of(v)
        got = event[3]
        nontrivial = 0 < want[0] < 65535
        acc.case(key='{}:{}'.format(mode, v), nontrivial=nontrivial,
                 labels=('roundtrip:' + mode,),
                 sample={'mode': mode, 'captured_raw': want, 'sent_raw': got}
                 if v % 16001 == 0 else None)
        one = {'kind': 'roundtrip', 'start': v, 'stop': v + 1, 'mode': mode}
        if mode == 'logical':
            ok = (len(got) == 4 and ux.hue_equal(got[0], want[0]) and
                  list(got[1:]) == want[1:])
            if not ok:
                acc.fail('roundtrip-logical',
                         'raw {} read in logical units was sent back as {}'
                         .format(want, got), one)
        else:
            want_rgb = ux.raw_hsb_to_rgb(want)
            got_rgb = ux.raw_hsb_to_rgb(got)
            worst = max(abs(a - b) for a, b in zip(want_rgb, got_rgb))
            if worst > Fraction(2, 65535) or got[3] != want[3]:
                acc.fail('roundtrip-rgb',
                         'raw {} read in rgb units was sent back as {} '
                         '(RGB error {:.3g})'.format(want, got, float(worst)),
                         one)
    for message in world.lan.protocol_errors[:1]:
        acc.fail('protocol:roundtrip', message, case)


# ---- (2) grids ---------------------------------------------------------------
def grid_values(kind):
    if kind == 'hue':
        values = [round(-50 + 0.01 * i, 2) for i in range(0, 50001)]
    elif kind == 'pct':
        values = [round(-20 + 0.01 * i, 2) for i in range(0, 15001)]
    else:   # seconds on a 1 ms grid plus beyond 2^32 ms
        values = [round(0.001 * i, 3) for i in range(0, 20001)]
        values += [4294967.0 + 0.1 * i for i in range(0, 20)]
        values += [-1.5, -0.001]
    extremes = [1e-9, 1e-7, 0.00049, 0.0005, 1e5, 1e6, 1e9, 123456789.125,
                -1e9, -1e-9, 359.99999, 360, 360.00001, 720, 65535, 65536]
    return values + extremes


def run_grid(acc, kind, start, stop):
    from verif.harness import World
    values = grid_values(kind)[start:stop]
    world = World(POP)
    batch = 50
    for base in range(0, len(values), batch):
        chunk = values[base:base + batch]
        lines = []
        for value in chunk:
            text = num(value)
            if kind == 'hue':
                lines.append('hue {} set "A"'.format(text))
            elif kind == 'pct':
                lines.append('saturation {} brightness {} set "A"'.format(
                    text, text))
            else:
                lines.append('duration {} set "A" on "A"'.format(text))
        script = 'saturation 50 brightness 50 kelvin 3000\n' + '\n'.join(lines)
        del world.trace[:]
        result = world.run(script, budget=100000)
        cmds = [e for e in result.trace if e[0] == 'cmd']
        per = 2 if kind == 'seconds' else 1
        case = {'kind': 'grid', 'grid': kind, 'values': [num(v) for v in chunk]}
        if (not result.compiled or result.aborted
                or len(cmds) != per * len(chunk)):
            acc.fail('grid-run:' + kind, 'grid script failed: {} {}'.format(
                result.errors, result.aborted), case)
            continue
        for index, value in enumerate(chunk):
            parsed = parse_num(num(value))
            one = {'kind': 'grid', 'grid': kind, 'values': [num(value)]}
            event = cmds[per * index]
            got = event[3]
            if kind == 'hue':
                want = ux.hue_raw(parsed)
                ok = any(ux.hue_equal(got[0], w) for w in want)
                nontrivial = 0 not in want and 65535 not in want
                shown = got[0]
            elif kind == 'pct':
                want = ux.pct_raw(parsed)
                ok = got[1] in want and got[2] in want
                nontrivial = 0 not in want and 65535 not in want
                shown = got[1:3]
            else:
                want = ux.ms_from_seconds(parsed)
                power = cmds[per * index + 1]
                ok = event[4] in want and power[4] in want
                nontrivial = 0 not in want and ux.U32 not in want
                shown = (event[4], power[4])
            labels = ['grid:' + kind]
            if parsed < 0:
                labels.append('clamped-low' if kind != 'hue' else 'negative')
            elif len(want) > 1:
                labels.append('tie')
            elif kind == 'pct' and parsed > 100:
                labels.append('clamped-high')
            elif kind == 'hue' and parsed >= 360:
                labels.append('wrapped')
            acc.case(key=kind + num(value), nontrivial=nontrivial,
                     labels=labels,
                     sample={'script': lines[index], 'expected': sorted(want),
                             'sent': shown} if (base + index) % 4999 == 0
                     else None)
            if not ok:
                acc.fail('grid-' + kind,
                         '{!r}: expected {} sent {}'.format(
                             lines[index], sorted(want), shown), one)
        for message in world.lan.protocol_errors[:1]:
            acc.fail('protocol:grid-' + kind, message, case)
        del world.lan.protocol_errors[:]


# ---- (3) modes x values x command kinds ---------------------------------------
KINDS = ('light', 'group', 'location', 'all', 'zone', 'zone1', 'matrix_inline',
         'matrix_block', 'matrix_default', 'on_light', 'off_light', 'on_group',
         'off_location', 'on_all', 'off_all', 'and_list', 'and_power')


def value_strategy(mode, reg):
    if reg in ('duration', 'time'):
        if mode == 'raw':
            return st.one_of(
                st.integers(0, 100000),
                st.sampled_from([0, 1, 999, 4294967295, 4294967296, 10 ** 12,
                                 -5]),
                st.floats(0, 100000).map(lambda x: round(x, 3)))
        return st.one_of(
            st.integers(0, 3000).map(lambda i: i / 1000),
            st.floats(0, 5000).map(lambda x: round(x, 4)),
            st.sampled_from([0, 0.0005, 0.0015, 4294967.295, 4294967.296,
                             1e7, -0.5]))
    if reg == 'kelvin':
        return st.one_of(st.integers(1500, 9000),
                         st.sampled_from([0, 65535, 65536, 70000, -1, 2700.4,
                                          2700.5, 1e6]))
    if mode == 'raw':
        return st.one_of(
            st.integers(0, 65535),
            st.sampled_from([-1, -1000, 65536, 100000, 10 ** 9, 0.4, 0.5,
                             1.5, 65534.5, 65535.49]),
            st.floats(0, 65535).map(lambda x: round(x, 2)))
    if reg == 'hue':
        return st.one_of(
            st.floats(0, 360).map(lambda x: round(x, 3)),
            st.floats(-400, 800).map(lambda x: round(x, 2)),
            st.sampled_from([0, 360, 359.9973, 359.9999, 720, -0.001, 1e6,
                             1e9, -1e9, 0.0027465, 180, 120.5,
                             # whole numbers a float cannot hold exactly
                             10 ** 16 + 1, 2 ** 60 + 100,
                             123456789012345678901, -(10 ** 17) - 7]))
    return st.one_of(
        st.floats(0, 100).map(lambda x: round(x, 3)),
        st.floats(-30, 150).map(lambda x: round(x, 2)),
        st.sampled_from([0, 100, 100.0001, 99.9993, 50, 0.00076, 1e6, -1e6,
                         33.333]))


@st.composite
def cases(draw):
    mode = draw(st.sampled_from(['logical', 'raw', 'rgb']))
    regs = {}
    for reg in REGS:
        if (reg in ('red', 'green', 'blue')) != (mode == 'rgb') and reg in (
                'hue', 'saturation', 'brightness', 'red', 'green', 'blue'):
            continue
        regs[reg] = draw(value_strategy(mode, reg))
    kind = draw(st.sampled_from(KINDS))
    with_default = draw(st.booleans())
    # the job may have run another script before, ending in any unit mode
    previous = draw(st.sampled_from([None, None, 'raw', 'rgb', 'logical']))
    # the registers may have been set under another unit mode than the one
    # in force when the command is issued: durations and delays keep their
    # meaning (the colour's re-expression is C14's business)
    switch_to = draw(st.sampled_from([None, None, None, 'raw', 'rgb',
                                      'logical']))
    # ... and the time register may hold a time-of-day pattern meanwhile
    pattern = draw(st.sampled_from([None, None, None, '12:00', '*:*5']))
    return {'mode': mode, 'regs': {k: num(v) for k, v in regs.items()},
            'kind': kind, 'with_default': with_default, 'previous': previous,
            'switch_to': switch_to, 'pattern': pattern}


def render(case):
    lines = ['units ' + case['mode']]
    lines.append(' '.join('{} {}'.format(reg, text)
                          for reg, text in case['regs'].items()))
    kind = case['kind']
    if case.get('pattern'):
        lines.append('time at ' + case['pattern'])
    if case.get('switch_to'):
        lines.append('units ' + case['switch_to'])
    if kind.startswith('matrix') and case['with_default']:
        lines.append('set default')
    lines.append({
        'light': 'set "A"',
        'group': 'set group "G"',
        'location': 'set location "L"',
        'all': 'set all',
        'zone': 'set "Z" zone 2 5',
        'zone1': 'set "Z" zone 7',
        'matrix_inline': 'set "M" row 1 2 column 0 1',
        'matrix_block': 'set "M" begin stage row 0 stage column 3 end',
        'matrix_default': 'set default set "M" begin end',
        'on_light': 'on "A"',
        'off_light': 'off "B"',
        'on_group': 'on group "G"',
        'off_location': 'off location "L"',
        'on_all': 'on all',
        'off_all': 'off all',
        'and_list': 'set "A" and group "H" and "Z" zone 0 and "B"',
        'and_power': 'on "A" and location "K" and group "G"',
    }[kind])
    return '\n'.join(lines)


def expected_commands(case):
    """[(target, op, extra...)] with colour/duration left to the matcher."""
    return {
        'light': [('A', 'set_color')],
        'group': [('A', 'set_color'), ('B', 'set_color')],
        'location': [('A', 'set_color'), ('B', 'set_color'),
                     ('Z', 'set_color')],
        'all': [('<all>', 'set_color')],
        'zone': [('Z', 'set_zone_color', 2, 6)],
        'zone1': [('Z', 'set_zone_color', 7, 8)],
        'matrix_inline': [('M', 'set_tile', {(1, 0), (1, 1), (2, 0), (2, 1)})],
        'matrix_block': [('M', 'set_tile', {(0, 0), (0, 1), (0, 2), (0, 3),
                                            (1, 3), (2, 3)})],
        'matrix_default': [('M', 'set_tile', set())],
        'on_light': [('A', 'set_power', 65535)],
        'off_light': [('B', 'set_power', 0)],
        'on_group': [('A', 'set_power', 65535), ('B', 'set_power', 65535)],
        'off_location': [('A', 'set_power', 0), ('B', 'set_power', 0),
                         ('Z', 'set_power', 0)],
        'on_all': [('<all>', 'set_power', 65535)],
        'off_all': [('<all>', 'set_power', 0)],
        'and_list': [('A', 'set_color'), ('M', 'set_color'),
                     ('Z', 'set_color'), ('Z', 'set_zone_color', 0, 1),
                     ('B', 'set_color')],
        'and_power': [('A', 'set_power', 65535), ('M', 'set_power', 65535),
                      ('A', 'set_power', 65535), ('B', 'set_power', 65535)],
    }[case['kind']]


_world = None
PACK = [False]    # thorough tier: also pack tile payloads with lifxlan's class


def check_case(acc, case):
    from verif.harness import shared_world
    world = shared_world('c07', POP, pack_messages=PACK[0])
    del world.trace[:]
    del world.lan.protocol_errors[:]
    script = render(case)
    mode = case['mode']
    regs = {reg: 0 for reg in REGS}
    regs.update({reg: parse_num(text) for reg, text in case['regs'].items()})
    job = None
    if case.get('previous'):
        earlier = world.run('units {} hue 3 saturation 4 brightness 5 '
                            'duration 6 set "B" on "B"'.format(
                                case['previous']), budget=20000)
        job = earlier.job
        job.load_string(script)
        del world.trace[:]
        del world.lan.protocol_errors[:]
    result = world.run(script, budget=20000, job=job)
    payload = {'kind': 'case', 'case': case}
    in_range_rgb = mode != 'rgb' or all(
        0 <= regs[r] <= 100 for r in ('red', 'green', 'blue'))
    if case.get('switch_to') == 'rgb' and mode != 'rgb':
        # a colour outside the documented ranges has no rgb expression
        # either: the switch produces percentages outside 0..100
        top = 65535 if mode == 'raw' else 100
        in_range_rgb = all(0 <= regs[r] <= top
                           for r in ('saturation', 'brightness'))
    if result.compiled and result.aborted and not in_range_rgb:
        # rgb percentages outside 0..100 are invalid input by the manual;
        # nothing out of range was transmitted, which is all C07 asks.
        acc.case(key=script, labels=('rgb-out-of-range-abort',))
        return
    if not result.compiled or result.aborted or result.budget_exhausted:
        acc.fail('run:' + case['kind'],
                 '{!r} did not run to its end: {} {}'.format(
                     script, result.errors.strip(), result.aborted), payload)
        acc.case(key=script, labels=('kind:' + case['kind'],))
        return
    for message in world.lan.protocol_errors[:1]:
        acc.fail('protocol:' + case['kind'] + ':' + mode,
                 '{!r}: {}'.format(script, message), payload)
    color_ok = ux.color_acceptable(mode, regs)
    switched = case.get('switch_to') not in (None, mode)

    def matches(acceptable, color):
        if not switched:
            return ux.color_matches(acceptable, color)
        # re-expressed by a units switch on the way: the same colour, as a
        # colour (each rgb step may cost a few raw units per channel)
        if len(color) != 4 or any(a is None for a in acceptable):
            return True
        # only for settings inside the documented ranges (a hue in degrees
        # may be any angle): what a switch makes of others is not laid down
        if mode == 'raw':
            valid = all(0 <= regs[r] <= 65535 for r in (
                'hue', 'saturation', 'brightness')) and \
                0 <= regs['kelvin'] <= 65535
        elif mode == 'logical':
            valid = all(0 <= regs[r] <= 100 for r in (
                'saturation', 'brightness')) and 0 <= regs['kelvin'] <= 65535
        else:
            valid = all(0 <= regs[r] <= 100 for r in (
                'red', 'green', 'blue')) and 0 <= regs['kelvin'] <= 65535
        if not valid:
            return True
        want = []
        for entry in acceptable[:3]:
            if isinstance(entry, tuple):
                want.append(int(round(entry[1])) % 65536
                            if entry is acceptable[0]
                            else min(65535, max(0, int(round(entry[1])))))
            else:
                want.append(sorted(entry)[0])
        if not any(abs(color[3] - k) <= 1 for k in acceptable[3]):
            return False
        got_rgb = ux.raw_hsb_to_rgb(color)
        want_rgb = ux.raw_hsb_to_rgb(want)
        return all(abs(g - w) * 65535 <= 12
                   for g, w in zip(got_rgb, want_rgb))
    duration_ok = ux.duration_acceptable(mode, regs['duration'])
    wanted = expected_commands(case)
    events = [e for e in result.trace if e[0] == 'cmd']
    delays = [e for e in result.trace if e[0] == 'delay']
    problems = []
    if [(e[1], e[2]) for e in events] != [(w[0], w[1]) for w in wanted]:
        problems.append('commands {} expected {}'.format(
            [(e[1], e[2]) for e in events], [(w[0], w[1]) for w in wanted]))
    else:
        for event, want in zip(events, wanted):
            op = want[1]
            if op == 'set_color':
                color, duration = event[3], event[4]
            elif op == 'set_zone_color':
                if (event[3], event[4]) != (want[2], want[3]):
                    problems.append('zones {}..{} expected {}..{}'.format(
                        event[3], event[4], want[2], want[3]))
                color, duration = event[5], event[6]
            elif op == 'set_power':
                if event[3] != want[2]:
                    problems.append('power {} expected {}'.format(
                        event[3], want[2]))
                color, duration = None, event[4]
            else:   # set_tile
                cells, duration = event[3], event[4]
                color = None
                if cells is None or len(cells) != 12:
                    problems.append('tile cells {!r}'.format(cells))
                else:
                    for index, cell in enumerate(cells):
                        pos = (index // 4, index % 4)
                        staged = pos in want[2]
                        if staged or case['with_default'] or (
                                case['kind'] == 'matrix_default'):
                            if not matches(color_ok, cell):
                                problems.append(
                                    'cell {} is {} expected {}'.format(
                                        pos, cell, _show(color_ok)))
                                break
                        elif cell != [0, 0, 0, 0]:
                            problems.append(
                                'unstaged cell {} is {} expected black'
                                .format(pos, cell))
                            break
            if color is not None and not matches(color_ok, color):
                problems.append('{} colour {} expected {}'.format(
                    want[0], color, _show(color_ok)))
            if duration not in duration_ok:
                problems.append('{} {} duration {} expected {}'.format(
                    want[0], op, duration, sorted(duration_ok)))
    time_value = regs['time']
    if case.get('pattern'):
        pass        # a time-of-day wait instead of a delay: C10 / C11
    elif time_value > 0:
        want_delay = time_value / 1000.0 if mode == 'raw' else time_value
        n_delays = 1 + (case['kind'] == 'matrix_default') + (
            case['kind'].startswith('matrix') and case['with_default'])
        if len(delays) != n_delays or any(
                abs(d[1] - want_delay) > 1e-12 * max(1.0, abs(want_delay))
                for d in delays):
            problems.append('delays {} expected {} x {}'.format(
                [d[1] for d in delays], n_delays, want_delay))
    elif delays and not case.get('pattern'):
        problems.append('delay {} for time {}'.format(delays, time_value))

    fixed_points = {0, 65535}
    sent = [x for e in events if e[2] in ('set_color', 'set_zone_color')
            for x in (e[3] if e[2] == 'set_color' else e[5])[:3]]
    nontrivial = any(x not in fixed_points for x in sent) or any(
        e[2] == 'set_power' and e[4] not in (0, ux.U32) for e in events)
    labels = ['kind:' + case['kind'], 'mode:' + mode]
    if case.get('previous'):
        labels.append('job-ran-before-in:' + case['previous'])
    if switched:
        labels.append('registers-set-before-switch-to:' + case['switch_to'])
    if not in_range_rgb:
        labels.append('rgb-out-of-range')
    acc.case(key=script, nontrivial=nontrivial, labels=labels,
             sample={'script': script,
                     'requests': [list(e[1:]) for e in events][:3]}
             if acc.evaluations % 1009 == 0 else None)
    if problems:
        words = problems[0].split(' ')
        topic = next((w for w in words if w in (
            'commands', 'zones', 'power', 'cell', 'unstaged', 'colour',
            'duration', 'delays', 'delay', 'tile')), 'other')
        acc.fail('{}:{}'.format(topic, case['kind']),
                 '{!r}: {}'.format(script, '; '.join(problems[:3])), payload)


def _show(acceptable):
    out = []
    for item in acceptable:
        if item is None:
            out.append('any')
        elif isinstance(item, tuple):
            out.append('~{:.2f}'.format(float(item[1])))
        else:
            out.append(sorted(item))
    return out


def _settings(examples):
    return settings(max_examples=examples, database=None, deadline=None,
                    derandomize=False, report_multiple_bugs=False,
                    suppress_health_check=list(HealthCheck))


def plan(tier, seed_value):
    specs = []
    for mode in ('logical', 'rgb'):
        for start in range(0, 65536, 4096):
            specs.append({'kind': 'roundtrip', 'mode': mode, 'start': start,
                          'stop': start + 4096})
    for kind in ('hue', 'pct', 'seconds'):
        total = len(grid_values(kind))
        step = 4000
        for start in range(0, total, step):
            specs.append({'kind': 'grid', 'grid': kind, 'start': start,
                          'stop': min(total, start + step)})
    per = 12000 if tier == 'thorough' else 1500
    for k in range(16):
        specs.append({'kind': 'cases', 'seed': seed_value * 1000 + k,
                      'examples': per, 'pack': tier == 'thorough'})
    return specs


def run_shard(spec):
    acc = Acc()
    if spec['kind'] == 'roundtrip':
        run_roundtrip(acc, spec['start'], spec['stop'], spec['mode'])
    elif spec['kind'] == 'grid':
        run_grid(acc, spec['grid'], spec['start'], spec['stop'])
    else:
        PACK[0] = bool(spec.get('pack'))

        @seed(spec['seed'])
        @_settings(spec['examples'])
        @given(cases())
        def run(case):
            check_case(acc, case)
        run()
    return acc


def finish(merged, tier):
    merged.extra['exhaustive_parts'] = {
        'raw_round_trip_all_65536_values_per_component': ['logical', 'rgb'],
        'logical_hue_grid_0.01': [-50, 450],
        'percent_grid_0.01': [-20, 130],
        'seconds_grid_0.001': [0, 20],
    }


def replay(case):
    acc = Acc()
    if case['kind'] == 'roundtrip':
        run_roundtrip(acc, case['start'], case['stop'], case['mode'])
    elif case['kind'] == 'grid':
        values = [parse_num(v) for v in case['values']]
        original = grid_values
        try:
            globals()['grid_values'] = lambda kind: values
            run_grid(acc, case['grid'], 0, len(values))
        finally:
            globals()['grid_values'] = original
    else:
        check_case(acc, case['case'])
    return [(f['sig'], f['what']) for f in acc.failures.values()]
