"""C20 - the web front end runs only the manifest's scripts, escaped, without
duplicates; stop variants hit exactly their targets; status/capture render."""
import html
import json
import os
import shutil
import sys
import types

from hypothesis import HealthCheck, seed, settings, strategies as st
from hypothesis.stateful import (RuleBasedStateMachine, initialize, invariant,
                                 precondition, rule,
                                 run_state_machine_as_test)

from verif import env
from verif.runner import Acc

ID = 'C20'
LEVEL = 'exploration'
RULE = (
    'Hypothesis rule-based state machine over the production web.front_end / '
    'web.web_app / JobControl with a stub `flask` (Blueprint, request, a '
    'render_template that evaluates every attribute the three templates '
    'read), a recording ScriptJob whose body runs until the test completes '
    'it, and job threads that only advance when the machine says so. '
    'Manifests: 1..8 entries, file names / paths / titles / colours from '
    'simple and hostile strategies (HTML metacharacters, quotes, path '
    'separators, ..), optional path / title / run_background / icon. Rules: '
    'run(p) for listed and unlisted p, stop(p), stop-current, stop-all, off, '
    'index, status, capture, and "job k completes". After every step the '
    'real controller (current / queued / background job names, jobs ever '
    'created and the file each was built from, stop requests received per '
    'job) must equal a dict/list model, every string handed to a template '
    'must be html.escape of the manifest string, default path/title must '
    'follow the documented derivation, status/capture must render and '
    'the capture page must leave the snapshot script of the lights in '
    'the script directory. '
    'Non-trivial = a history with a repeated request for a running path, a '
    'hostile string, or a stop-all with >= 2 queued jobs. Distinct by '
    'manifest + request sequence.')
ASSUMPTIONS = [
    'Flask/Jinja are not installed: escaping is asserted where the property '
    'places it (at construction of the script controls), not in Jinja.',
    'Job threads are replaced by cooperative stand-ins (C08 covers '
    'interleavings); a job ends when the history says so.',
    'The default title is asserted only for names made of [a-z0-9] words '
    'joined by - or _, where "capitalise each word" is unambiguous, and '
    'only when no explicit path is given.',
]

SIMPLE = ['on', 'off', 'fade', 'night-light', 'all_off', 'reading', 'a1',
          'stop-current', 'stop-all', 'tv2x_mode', 'b2b-lights']
HOSTILE = ['<b>x</b>', 'a&b', 'tom&jerry', '"quoted"', "it's", '../secret',
           'dir/file', 'mood/night/late_show', 'a/b/c/deep', 'a b', '<script>alert(1)</script>', '&amp;', 'x>y',
           'é', '..', 'a%20b']


class FakeThread:
    """Stand-in for threading.Thread: runs when the test says so."""
    registry = []

    def __init__(self, target=None, args=(), kwargs=None, daemon=None,
                 name=None):
        self.target, self.args = target, args
        self.started = False
        self.done = False

    def start(self):
        self.started = True
        FakeThread.registry.append(self)

    def is_alive(self):
        return self.started and not self.done

    def finish(self):
        try:
            self.target(*self.args)
        finally:
            self.done = True


class RecordingJob:
    created = []

    def __init__(self, file_name):
        self.file_name = file_name
        self.stops = 0
        self.executed = 0

    @staticmethod
    def from_file(file_name):
        job = RecordingJob(file_name)
        RecordingJob.created.append(job)
        return job

    def execute(self):
        self.executed += 1

    def request_stop(self):
        self.stops += 1


class Rendered:
    log = []


def install_flask_stub():
    if 'flask' in sys.modules and getattr(
            sys.modules['flask'], '_verif_stub', False):
        return
    flask = types.ModuleType('flask')
    flask._verif_stub = True

    class Blueprint:
        routes = []     # (rule, view function), as front_end registers them

        def __init__(self, *args, **kwargs):
            pass

        def route(self, rule, *args, **kwargs):
            def register(fn):
                Blueprint.routes.append((rule, fn))
                return fn
            return register

    class Request:
        headers = {'User-Agent': 'Mozilla/5.0 (X11; Linux) SmartTV?no'}

    def render_template(name, **context):
        touched = {'template': name, 'context': context, 'scripts': []}
        for key in ('agent_class', 'path_root'):
            str(context.get(key))
        if name == 'index.html':
            for script in context['scripts']:
                touched['scripts'].append({
                    'path': script.path, 'title': script.title,
                    'color': script.color, 'background': script.background,
                    'running': bool(script.running)})
            str(context['title'])
        elif name == 'action.html':
            script = context['script']
            touched['scripts'].append({
                'path': script.path, 'title': script.title,
                'color': script.color, 'background': script.background})
            str(context['message'])
            str(context['icon'])
        elif name == 'status.html':
            data = context['data']
            str(data['py_version'])
            str(data['lights'])
            bool(data['current_job'])
            for key in ('background_jobs', 'queued_jobs'):
                for agent in (data[key] or []):
                    str(agent.name)
        Rendered.log.append(touched)
        return touched
    flask.Blueprint = Blueprint
    flask.request = Request()
    flask.render_template = render_template
    sys.modules['flask'] = flask


name_piece = st.one_of(st.sampled_from(SIMPLE), st.sampled_from(HOSTILE))


@st.composite
def manifests(draw):
    count = draw(st.integers(1, 8))
    entries = []
    paths = set()
    for index in range(count):
        base = draw(name_piece)
        entry = {'file_name': base + draw(st.sampled_from(['.ls', '.ls', ''])),
                 'background': draw(st.sampled_from(
                     ['#222', 'Linen', 'rgb(1, 2, 3)', '"><x', 'a&b'])),
                 'color': draw(st.sampled_from(
                     ['white', '#fff', "x'y", '<i>', 'Linen']))}
        if draw(st.booleans()):
            entry['path'] = draw(name_piece)
        if draw(st.booleans()):
            entry['title'] = draw(st.one_of(
                st.sampled_from(['All Off', 'T<1>', 'R&B', '']),
                name_piece))
        if draw(st.integers(0, 3)) == 0:
            entry['run_background'] = True
        if draw(st.integers(0, 4)) == 0:
            entry['icon'] = draw(st.sampled_from(['litBulb', 'redBulb']))
        path = entry.get('path') or (
            entry['file_name'][:-3] if entry['file_name'].endswith('.ls')
            else entry['file_name'])
        if not path or path in paths:
            continue
        if path == 'off':
            # the Off button always queues its script; a background 'off'
            # would be spawned twice under one name (outside C08's domain)
            entry.pop('run_background', None)
        paths.add(path)
        entries.append(entry)
    if not entries:
        entries = [{'file_name': 'on.ls', 'background': '#222',
                    'color': 'white'}]
    return entries


def _is_escaped(text):
    """No HTML metacharacter in text other than as part of an entity."""
    rest = text
    for entity in ('&amp;', '&lt;', '&gt;', '&quot;', '&#x27;', '&#39;'):
        rest = rest.replace(entity, '')
    return not any(c in rest for c in '<>&"\'')


def effective_path(entry):
    path = entry.get('path', '')
    if not path:
        # "The default for path is the base name of the file"
        path = entry['file_name']
        if path.endswith('.ls'):
            path = path[:-3]
        path = path.rsplit('/', 1)[-1] or path
    return path


class Site:
    """Production web stack + the model."""

    def __init__(self, manifest):
        from verif.harness import World
        install_flask_stub()
        self.directory = env.work_dir('C20', os.getpid())
        shutil.rmtree(self.directory, ignore_errors=True)
        os.makedirs(os.path.join(self.directory, 'web'))
        self.script_path = os.path.join(self.directory, 'scripts')
        os.makedirs(self.script_path)
        with open(os.path.join(self.directory, 'web', 'm.json'), 'w') as dst:
            json.dump(manifest, dst)
        self.cwd = os.getcwd()
        os.chdir(self.directory)
        self.world = World(
            [{'label': 'A', 'group': 'G', 'location': 'L'},
             {'label': 'Z', 'group': 'G', 'location': 'L', 'kind': 'mz',
              'zones': 3}],
            extra_settings={'manifest_file_name': 'm.json',
                            'script_path': self.script_path})
        import bardolph.lib.job_control as job_control
        from bardolph.lib import injection
        import web.web_app as web_app
        from web import i_web
        self._real_threading = job_control.threading
        # only Thread is replaced; every other name is the real module's
        shim = types.SimpleNamespace(**{
            name: getattr(self._real_threading, name)
            for name in dir(self._real_threading)
            if not name.startswith('__')})
        shim.Thread = FakeThread
        job_control.threading = shim
        self.job_control = job_control
        FakeThread.registry = []
        RecordingJob.created = []
        Rendered.log = []
        self._real_script_job = web_app.ScriptJob
        web_app.ScriptJob = RecordingJob
        self.web_app_module = web_app
        self.app = web_app.WebApp()
        injection.bind_instance(self.app).to(i_web.WebApp)
        import web.front_end as front_end
        self.fe = front_end.FrontEnd()
        self.manifest = manifest
        sys.modules['flask'].request.headers = dict(self.CLIENTS['desktop'])
        self.entries = {effective_path(e): e for e in manifest}
        # model
        self.jobs = []          # every job ever created: dict
        self.queue = []
        self.active = None
        self.background = {}
        self.notes = set()
        self.history = []

    def close(self):
        self.job_control.threading = self._real_threading
        self.web_app_module.ScriptJob = self._real_script_job
        os.chdir(self.cwd)
        shutil.rmtree(self.directory, ignore_errors=True)

    # ---- model helpers -----------------------------------------------------
    def name_of(self, path):
        return html.escape(path)

    def reported_running(self, path):
        name = self.name_of(path)
        return (self.active is not None and self.active['name'] == name) or (
            name in self.background)

    def model_start(self, path):
        entry = self.entries[path]
        job = {'name': self.name_of(path),
               'file': os.path.join(self.script_path, entry['file_name']),
               'stops': 0, 'index': len(self.jobs), 'state': 'queued'}
        self.jobs.append(job)
        if entry.get('run_background', False):
            self.background[job['name']] = job
            job['state'] = 'running'
        else:
            self.queue.append(job)
            if self.active is None:
                self.active = self.queue.pop(0)
                self.active['state'] = 'running'

    # ---- requests ---------------------------------------------------------------
    def run(self, path):
        self.history.append(('run', path))
        if any(c in path for c in '<>&"\''):
            self.notes.add('hostile-string')
        listed = path in self.entries
        if listed and self.reported_running(path):
            self.notes.add('repeated-request-for-running-path')
        elif listed:
            self.model_start(path)
        self.fe.run_script(path)

    def stop(self, path):
        self.history.append(('stop', path))
        if path in self.entries and self.reported_running(path):
            name = self.name_of(path)
            if self.active is not None and self.active['name'] == name:
                self.active['stops'] += 1
            elif name in self.background:
                self.background[name]['stops'] += 1
        self.fe.stop_script(path)

    def stop_current(self):
        self.history.append(('stop-current',))
        if self.active is not None:
            self.active['stops'] += 1
        self._special(self.fe.stop_current, 'stop-current')

    def stop_all(self):
        self.history.append(('stop-all',))
        if len(self.queue) >= 2:
            self.notes.add('stop-all-with-queued-jobs')
        for job in self.queue:
            job['state'] = 'cleared'
        self.queue = []
        if self.active is not None:
            self.active['stops'] += 1
        for job in self.background.values():
            job['stops'] += 1
        self._special(self.fe.stop_all, 'stop-all')

    def _special(self, handler, path):
        """The page shown after stop-current / stop-all needs a manifest
        entry of that name; without one only the action is asserted."""
        try:
            handler()
        except AttributeError:
            if path in self.entries:
                raise

    def off(self):
        self.history.append(('off',))
        if self.active is not None:
            self.active['stops'] += 1
        self.model_start('off')
        self.fe.off()

    def page(self, name):
        self.history.append(('page', name))
        getattr(self.fe, name)()

    CLIENTS = {'desktop': {'User-Agent': 'Mozilla/5.0 (X11; Linux)'},
               'tv': {'User-Agent': 'Mozilla/5.0 (SmartTV; Tizen)'},
               'mobile': {'User-Agent': 'Mozilla/5.0 (iPhone; like Mac)'},
               # a header a client is free to leave out (scripts, probes)
               'no-user-agent': {}}

    def client(self, kind):
        self.history.append(('client', kind))
        sys.modules['flask'].request.headers = dict(self.CLIENTS[kind])

    def complete(self, choice):
        alive = [t for t in FakeThread.registry if t.is_alive()]
        if not alive:
            return False
        thread = alive[choice % len(alive)]
        agent = thread.target.__self__
        name = agent.name
        self.history.append(('complete', name))
        if self.active is not None and self.active['name'] == name and \
                agent is self.app._jobs.get_current():
            self.active['state'] = 'done'
            self.active = self.queue.pop(0) if self.queue else None
            if self.active is not None:
                self.active['state'] = 'running'
        else:
            done = self.background.pop(name, None)
            if done is not None:
                done['state'] = 'done'
        thread.finish()
        return True

    # ---- comparison ----------------------------------------------------------------
    def problems(self):
        out = []
        jobs = self.app._jobs
        current = jobs.get_current()
        got_current = None if current is None else current.name
        want_current = None if self.active is None else self.active['name']
        if got_current != want_current:
            out.append(('current-job', 'current job is {!r}, expected {!r}'
                        .format(got_current, want_current)))
        got_queue = [agent.name for agent in jobs.get_queued()]
        if got_queue != [job['name'] for job in self.queue]:
            out.append(('queue', 'queued jobs {} expected {}'.format(
                got_queue, [job['name'] for job in self.queue])))
        got_background = sorted(agent.name for agent in jobs.get_background())
        if got_background != sorted(self.background):
            out.append(('background', 'background jobs {} expected {}'.format(
                got_background, sorted(self.background))))
        created = RecordingJob.created
        if [job.file_name for job in created] != [
                job['file'] for job in self.jobs]:
            out.append(('jobs-created',
                        'jobs were built from {} expected {}'.format(
                            [job.file_name for job in created][-3:],
                            [job['file'] for job in self.jobs][-3:])))
        else:
            for real, model in zip(created, self.jobs):
                if real.stops != model['stops']:
                    out.append(('stop-target',
                                'job #{} ({}) received {} stop requests, '
                                'expected {}'.format(
                                    model['index'], model['name'], real.stops,
                                    model['stops'])))
                    break
        started = {id(t.target.__self__.job) for t in FakeThread.registry}
        for real, model in zip(created, self.jobs):
            should = model['state'] in ('running', 'done')
            if (id(real) in started) != should:
                out.append(('started', 'job #{} ({}) started={} expected {}'
                            .format(model['index'], model['name'],
                                    id(real) in started, should)))
                break
        if jobs.has_jobs() != bool(self.queue or self.active
                                   or self.background):
            out.append(('has-jobs', 'has_jobs() is {}'.format(
                jobs.has_jobs())))
        return out

    def check_rendered(self):
        out = []
        by_escaped = {html.escape(effective_path(e)): e for e in self.manifest}
        for page in Rendered.log:
            for script in page['scripts']:
                entry = by_escaped.get(script['path'])
                if entry is None:
                    out.append(('escape-path',
                                'a page received the path {!r}, which is not '
                                'the escaped path of any entry'.format(
                                    script['path'])))
                    continue
                for key in ('color', 'background'):
                    if script[key] != html.escape(entry[key]):
                        out.append(('escape-' + key,
                                    'page got {} {!r} for manifest value {!r}'
                                    .format(key, script[key], entry[key])))
                title = entry.get('title', '')
                if title:
                    if script['title'] != html.escape(title):
                        out.append(('escape-title',
                                    'page got title {!r} for {!r}'.format(
                                        script['title'], title)))
                elif not _is_escaped(script['title']):
                    # derived from the file name or path: whatever the exact
                    # wording, no raw metacharacter may reach the page
                    out.append(('escape-derived-title',
                                'page got the derived title {!r} for file '
                                '{!r}'.format(script['title'],
                                              entry['file_name'])))
                elif 'path' not in entry:
                    base = effective_path(entry)
                    words = base.replace('_', ' ').replace('-', ' ').split(' ')
                    if all(w.isalnum() and w.isascii() and w == w.lower()
                           and w[:1].isalpha() for w in words):
                        want = ' '.join(w.capitalize() for w in words)
                        if script['title'] != want:
                            out.append(('default-title',
                                        'default title for {!r} is {!r}, '
                                        'expected {!r}'.format(
                                            entry['file_name'],
                                            script['title'], want)))
        del Rendered.log[:]
        return out


def machine_class(acc):
    class WebMachine(RuleBasedStateMachine):
        def __init__(self):
            super().__init__()
            self.site = None
            self.failed = False

        @initialize(manifest=manifests())
        def start(self, manifest):
            self.site = Site(manifest)

        def listed(self, data_choice):
            paths = sorted(self.site.entries)
            return paths[data_choice % len(paths)]

        @rule(choice=st.integers(0, 20))
        def run_listed(self, choice):
            self.guard(lambda: self.site.run(self.listed(choice)))

        @rule(path=st.one_of(name_piece, st.sampled_from(
            ['index', 'status', 'm.json', '../web/m.json', 'on.ls', ''])))
        def run_any(self, path):
            if path in ('',):
                return
            self.guard(lambda: self.site.run(path))

        @rule(choice=st.integers(0, 20))
        def stop_listed(self, choice):
            self.guard(lambda: self.site.stop(self.listed(choice)))

        @rule(path=name_piece)
        def stop_any(self, path):
            self.guard(lambda: self.site.stop(path))

        @rule()
        def stop_current(self):
            self.guard(self.site.stop_current)

        @rule()
        def stop_all(self):
            self.guard(self.site.stop_all)

        @precondition(lambda self: self.site is not None
                      and 'off' in self.site.entries)
        @rule()
        def off(self):
            self.guard(self.site.off)

        @rule()
        def index(self):
            self.guard(lambda: self.site.page('index'))

        @rule()
        def status(self):
            self.guard(lambda: self.site.page('status'), 'status-page')

        @rule()
        def capture(self):
            if self.site is None or self.failed:
                return
            target = os.path.join(self.site.script_path, '__snapshot__.ls')
            if os.path.exists(target):
                os.remove(target)
            self.guard(lambda: self.site.page('capture'), 'capture-page')
            # the Capture button writes the snapshot script (the one the
            # Retrieve entry of the shipped manifest runs)
            text = None
            if os.path.exists(target):
                with open(target) as src:
                    text = src.read()
            if not self.failed and (
                    text is None or 'set "A"' not in text
                    or 'set "Z" zone' not in text):
                self.report('capture-wrote-no-snapshot',
                            'the capture page left {} in the script '
                            'directory'.format(
                                'no __snapshot__.ls' if text is None
                                else repr(text[:80])))

        @rule(choice=st.integers(0, 10))
        def complete(self, choice):
            self.guard(lambda: self.site.complete(choice))

        @rule(kind=st.sampled_from(['desktop', 'tv', 'mobile',
                                    'no-user-agent']))
        def another_client(self, kind):
            self.guard(lambda: self.site.client(kind))

        def guard(self, action, label='request'):
            if self.site is None or self.failed:
                return
            try:
                action()
            except Exception as ex:
                self.report(label + '-raised:' + type(ex).__name__,
                            '{} raised {!r}'.format(label, ex))

        def report(self, sig, what):
            site = self.site
            acc.fail(sig, '{} after {} with manifest {}'.format(
                what, site.history[-8:], site.manifest),
                {'kind': 'web', 'manifest': site.manifest,
                 'history': [list(h) for h in site.history]})
            self.failed = True

        @invariant()
        def agrees(self):
            if self.site is None or self.failed:
                return
            for sig, what in (self.site.problems() +
                              self.site.check_rendered())[:1]:
                self.report(sig, what)

        def teardown(self):
            if self.site is None:
                return
            site = self.site
            site.close()
            nontrivial = bool(site.notes)
            acc.case(key=repr((site.manifest, site.history)),
                     nontrivial=nontrivial,
                     labels=['history'] + sorted(site.notes),
                     sample={'manifest': site.manifest[:3],
                             'history': [list(h) for h in site.history[:10]]}
                     if nontrivial and len(acc.samples) < 3 else None)
    return WebMachine


def replay_history(acc, manifest, history):
    site = Site(manifest)
    try:
        for step in history:
            kind = step[0]
            try:
                if kind == 'run':
                    site.run(step[1])
                elif kind == 'stop':
                    site.stop(step[1])
                elif kind == 'stop-current':
                    site.stop_current()
                elif kind == 'stop-all':
                    site.stop_all()
                elif kind == 'off':
                    site.off()
                elif kind == 'complete':
                    alive = [t for t in FakeThread.registry if t.is_alive()]
                    names = [t.target.__self__.name for t in alive]
                    if step[1] in names:
                        site.complete(names.index(step[1]))
                elif kind == 'page':
                    site.page(step[1])
                elif kind == 'client':
                    site.client(step[1])
            except Exception as ex:
                acc.fail('request-raised:' + type(ex).__name__,
                         '{} raised {!r}'.format(step, ex),
                         {'kind': 'web', 'manifest': manifest,
                          'history': history})
                return
            for sig, what in (site.problems() + site.check_rendered())[:1]:
                acc.fail(sig, what, {'kind': 'web', 'manifest': manifest,
                                     'history': history})
                return
    finally:
        site.close()


# ---- the manifest that is shipped, clicked through the routes that are registered --------
def dispatch(url):
    """The view werkzeug would pick: a fixed rule before a variable one."""
    routes = sys.modules['flask'].Blueprint.routes
    for rule, fn in routes:
        if '<' not in rule and rule == url:
            return fn, ()
    for rule, fn in sorted(routes, key=lambda r: -r[0].count('/')):
        if '<' in rule:
            prefix = rule[:rule.index('<')]
            rest = url[len(prefix):]
            if url.startswith(prefix) and rest and '/' not in rest:
                return fn, (rest,)
    return None, ()


def check_shipped(acc):
    with open(os.path.join(env.REPO, 'web', 'manifest.json')) as src:
        manifest = json.load(src)
    for entry in manifest:
        site = Site(manifest)
        try:
            path = effective_path(entry)
            view, args = dispatch('/' + path)
            before = len(RecordingJob.created)
            problem = None
            try:
                if view is None:
                    problem = 'no route answers /{}'.format(path)
                else:
                    view(*args)
            except Exception as ex:     # noqa
                problem = 'the request /{} raised {!r}'.format(path, ex)
            started = [job.file_name for job in
                       RecordingJob.created[before:]]
            acc.case(key='shipped:' + path, nontrivial=True,
                     labels=['shipped-manifest'],
                     sample={'path': path, 'file_name': entry['file_name'],
                             'started': started}
                     if len(acc.samples) < 3 else None)
            case = {'kind': 'shipped'}
            if problem:
                acc.fail('shipped:request-fails', problem, case)
            elif not entry['file_name'] and started:
                acc.fail('shipped:button-without-script-starts-a-job',
                         'the shipped manifest\'s "{}" button lists no script '
                         'but GET /{} was answered by {} and started a job '
                         'for {}'.format(entry.get('title', path), path,
                                         view.__name__, started), case)
            elif entry['file_name'] and [os.path.basename(f) for f in
                                         started] != [entry['file_name']]:
                acc.fail('shipped:wrong-script',
                         'GET /{} started {} instead of {}'.format(
                             path, started, entry['file_name']), case)
        finally:
            site.close()


def plan(tier, seed_value):
    per = 4000 if tier == 'thorough' else 100
    return [{'seed': seed_value * 1000 + k, 'examples': per}
            for k in range(16)] + [{'kind': 'shipped'}]


def run_shard(spec):
    acc = Acc()
    if spec.get('kind') == 'shipped':
        check_shipped(acc)
        return acc
    machine = seed(spec['seed'])(machine_class(acc))
    run_state_machine_as_test(machine, settings=settings(
        max_examples=spec['examples'], stateful_step_count=25, database=None,
        deadline=None, derandomize=False, report_multiple_bugs=False,
        suppress_health_check=list(HealthCheck)))
    return acc


def replay(case):
    acc = Acc()
    if case.get('kind') == 'shipped':
        check_shipped(acc)
        return [(f['sig'], f['what']) for f in acc.failures.values()]
    replay_history(acc, case['manifest'], [tuple(h) for h in case['history']])
    return [(f['sig'], f['what']) for f in acc.failures.values()]
