"""C13 - the light directory stays self-consistent over any discovery/expiry
history; stepping from any name yields the nearest remaining name."""
import bisect
import itertools

from hypothesis import given, seed, strategies as st
from hypothesis.stateful import (RuleBasedStateMachine, invariant, rule,
                                 run_state_machine_as_test)

from verif import env  # noqa: F401
from verif.checks import progbase
from verif.runner import Acc

ID = 'C13'
LEVEL = 'exploration'
RULE = (
    'Model-based. (1) A Hypothesis rule-based state machine drives the '
    'production LightSet + LifxLanApi over the simulated LAN with a virtual '
    'clock: discover(arbitrary snapshot over 4 names x 3 groups x 3 '
    'locations, duplicate labels allowed), failing discover, advance(dt), '
    'refresh (discover + expiry with a generated light_gc_time, 0 included; '
    'also with its discovery half left unanswered), up to 12 '
    'steps; after every step the directory is compared with a dict model '
    '(name -> group, location, last seen): names sorted / duplicate-free / '
    'exactly the known lights, each light in exactly its last reported group '
    'and location, member lists sorted and non-empty, group and location '
    'name lists exactly the non-empty ones, expiry removes exactly the lights '
    'older than the limit. (2) All histories of up to 3 steps over a 2x2x2 '
    'alphabet are enumerated exhaustively (4 steps in the thorough tier over '
    'a reduced action set). (3) SortedList: arbitrary add/remove sequences '
    'and probe values against a sorted Python list, and a simulated '
    'in-progress iteration (the VM\'s next/prev stepping) interleaved with '
    'removals and additions. Non-trivial = a history containing '
    'move-then-vanish, vanish-then-reappear-elsewhere, expiry of the last '
    'member of a group, or a duplicate label; for SortedList a probe value '
    'that is not in the list or an iteration with a removal of the current '
    'element. Distinct by history.')
ASSUMPTIONS = [
    'A light is "seen" when a discovery that completes lists it; its age is '
    'measured by bardolph.controller.light.time, replaced by a virtual clock.',
    'A failed discovery is one where the LAN-level get_lights request or a '
    'per-device identification request raises WorkflowException.',
]

NAMES = ['n1', 'n2', 'n3', 'n4']
GROUPS = ['g1', 'G2', 'g3']     # plain string order: 'G2' < 'g1'
LOCS = ['l1', 'L2', 'l3']


class VirtualTime:
    def __init__(self):
        self.now = 1000.0

    def time(self):
        return self.now


class Directory:
    """The production stack under test plus the reference model."""

    def __init__(self, gc_time):
        from verif import simlan
        from verif.harness import World
        import bardolph.controller.light as light_module
        self.clock = VirtualTime()
        light_module.time = self.clock
        self.world = World([], extra_settings={'light_gc_time': gc_time})
        self.light_set = self.world.light_set
        self.lan = self.world.lan
        self.gc_time = gc_time
        self.model = {}       # name -> (group, location, last_seen)
        self.notes = set()
        self.ever = {}        # name -> set of (group, location) it has had
        self.vanished = set()
        self.log = []

    def set_population(self, snapshot):
        self.lan.set_population([
            {'label': n, 'group': g, 'location': loc}
            for n, g, loc in snapshot])
        labels = [n for n, _, _ in snapshot]
        if len(labels) != len(set(labels)):
            self.notes.add('duplicate-label')

    def discover(self, snapshot, fail=None):
        self.set_population(snapshot)
        if fail == 'lan':
            self.lan.discover_fails = 1
        elif fail is not None and snapshot:
            victim = snapshot[fail[0] % len(snapshot)][0]
            self.lan.op_faults[(victim, fail[1])] = 1
        result = self.light_set.discover()
        self.lan.op_faults.clear()
        self.lan.discover_fails = 0
        failed = fail == 'lan' or (fail is not None and bool(snapshot))
        self.log.append(('discover', [list(x) for x in snapshot], fail))
        if failed:
            self.notes.add('failed-discover')
            return result, False
        self._model_seen(snapshot)
        return result, True

    def _model_seen(self, snapshot):
        for name, group, loc in snapshot:
            old = self.model.get(name)
            if old is not None and (old[0], old[1]) != (group, loc):
                self.notes.add('moved')
            if name in self.vanished and old is None:
                had = self.ever.get(name, set())
                if had and (group, loc) not in had:
                    self.notes.add('vanish-then-reappear-elsewhere')
            self.vanished.discard(name)
            self.ever.setdefault(name, set()).add((group, loc))
            self.model[name] = (group, loc, self.clock.now)

    def advance(self, dt):
        self.clock.now += dt
        self.log.append(('advance', dt))

    def refresh(self, snapshot, fail=None):
        self.set_population(snapshot)
        if fail == 'lan':
            self.lan.discover_fails = 1
        elif fail is not None and snapshot:
            victim = snapshot[fail[0] % len(snapshot)][0]
            self.lan.op_faults[(victim, fail[1])] = 1
        try:
            self.light_set.refresh()
        finally:
            self.lan.op_faults.clear()
            self.lan.discover_fails = 0
        failed = fail == 'lan' or (fail is not None and bool(snapshot))
        if failed:
            # nothing was seen; the expiry half still takes place
            self.notes.add('failed-refresh')
            self.log.append(('refresh', [list(x) for x in snapshot], fail))
        else:
            self.log.append(('refresh', [list(x) for x in snapshot]))
            self._model_seen(snapshot)
        limit = float(self.gc_time)     # seconds; need not be whole
        for name in sorted(self.model):
            group, loc, seen = self.model[name]
            if self.clock.now - seen > limit:
                moved = len(self.ever.get(name, ())) > 1
                if moved:
                    self.notes.add('move-then-vanish')
                members = [n for n, v in self.model.items() if v[0] == group]
                if members == [name]:
                    self.notes.add('expired-last-member-of-group')
                del self.model[name]
                self.vanished.add(name)
                self.notes.add('expired')

    # ---- the invariants of the property -------------------------------------
    def problems(self):
        ls = self.light_set
        out = []
        names = list(ls.get_light_names())
        if names != sorted(set(names)):
            out.append(('names-unsorted-or-duplicate',
                        'light names {} are not sorted/duplicate-free'.format(
                            names)))
        if names != sorted(self.model):
            out.append(('names-differ',
                        'light names {} but the known lights are {}'.format(
                            names, sorted(self.model))))
        if ls.get_light_count() != len(self.model):
            out.append(('count', 'light count {} expected {}'.format(
                ls.get_light_count(), len(self.model))))
        for name in sorted(self.model):
            light = ls.get_light(name)
            if light is None or light.get_name() != name:
                out.append(('resolve', 'name {} resolves to {!r}'.format(
                    name, light)))
            elif (light.get_group(), light.get_location()) != \
                    self.model[name][:2]:
                out.append(('stale-light',
                            '{} reports {}/{} but last reported {}/{}'.format(
                                name, light.get_group(), light.get_location(),
                                *self.model[name][:2])))
        for probe in NAMES:
            if probe not in self.model and ls.get_light(probe) is not None:
                out.append(('ghost', '{} is not known but resolves'.format(
                    probe)))
        for kind, index, get_names, get_members in (
                ('group', 0, ls.get_group_names, ls.get_group_lights),
                ('location', 1, ls.get_location_names,
                 ls.get_location_lights)):
            expected = {}
            for name, value in self.model.items():
                expected.setdefault(value[index], []).append(name)
            listed = list(get_names())
            if listed != sorted(expected):
                out.append((kind + '-names',
                            '{} names {} expected {}'.format(
                                kind, listed, sorted(expected))))
            for set_name in sorted(set(listed) | set(expected)):
                members = get_members(set_name)
                members = None if members is None else list(members)
                want = sorted(expected.get(set_name, []))
                if not want:
                    if members is not None:
                        out.append((kind + '-kept-empty-or-stale',
                                    '{} {} lists {} but has no members'
                                    .format(kind, set_name, members)))
                elif members != want:
                    out.append((kind + '-members',
                                '{} {} lists {} expected {}'.format(
                                    kind, set_name, members, want)))
            for probe in GROUPS + LOCS:
                if probe not in expected and get_members(probe) is not None:
                    out.append((kind + '-kept-empty-or-stale',
                                '{} {} still listed'.format(kind, probe)))
        out.extend(self.iteration_problems())
        return out

    def iteration_problems(self):
        """An iteration in progress, as the VM performs it (VmDiscover): from
        any name - present or since removed - of any set - present or since
        vanished - the next step is the nearest remaining member in that
        direction, or the end; never an error."""
        import types
        from bardolph.vm.vm_codes import Operand
        from bardolph.vm.vm_discover import VmDiscover
        out = []
        reg = types.SimpleNamespace(operand=None, disc_forward=True,
                                    result=None)
        stepper = VmDiscover(None, reg)
        for operand, index, universe in (
                (Operand.GROUP, 0, GROUPS), (Operand.LOCATION, 1, LOCS)):
            for set_name in universe:
                members = sorted(n for n, v in self.model.items()
                                 if v[index] == set_name)
                for current in NAMES:
                    for forward in (True, False):
                        reg.operand, reg.disc_forward = operand, forward
                        if forward:
                            rest = [m for m in members if m > current]
                            want = rest[0] if rest else Operand.NULL
                        else:
                            rest = [m for m in members if m < current]
                            want = rest[-1] if rest else Operand.NULL
                        try:
                            stepper.dnextm(set_name, current)
                            got = reg.result
                        except Exception as ex:     # noqa
                            got = 'raised {!r}'.format(ex)
                        if got != want:
                            out.append((
                                'member-step', 'stepping {} from {} in {} {} '
                                '(members {}) gave {!r}, expected {!r}'.format(
                                    'forward' if forward else 'backward',
                                    current, operand.name.lower(), set_name,
                                    members, got, want)))
                            return out
        return out


@st.composite
def snapshots(draw, names=NAMES, groups=GROUPS, locs=LOCS, dups=True):
    count = draw(st.integers(0, len(names) + (1 if dups else 0)))
    out = []
    for _ in range(count):
        out.append((draw(st.sampled_from(names)),
                    draw(st.sampled_from(groups)),
                    draw(st.sampled_from(locs))))
    if not dups:
        seen, unique = set(), []
        for item in out:
            if item[0] not in seen:
                seen.add(item[0])
                unique.append(item)
        out = unique
    return out


def machine_class(acc, gc_choices=(0, 1, 2.5, '30.5', 30, 100, 300)):
    class DirectoryMachine(RuleBasedStateMachine):
        def __init__(self):
            super().__init__()
            self.dir = None
            self.failed = None

        def _ensure(self):
            if self.dir is None:
                self.dir = Directory(100)

        @rule(gc=st.sampled_from(gc_choices), snapshot=snapshots())
        def start(self, gc, snapshot):
            if self.dir is None:
                self.dir = Directory(gc)
                self.dir.discover(snapshot)

        @rule(snapshot=snapshots())
        def discover(self, snapshot):
            self._ensure()
            result, expect = self.dir.discover(snapshot)
            if bool(result) != expect:
                self._fail('discover-result',
                           'discover() returned {!r}, expected {}'.format(
                               result, expect))

        @rule(snapshot=snapshots(), victim=st.integers(0, 5),
              op=st.sampled_from(['lan', 'get_label', 'get_group',
                                  'get_location', 'get_product_features']))
        def discover_fails(self, snapshot, victim, op):
            self._ensure()
            fail = 'lan' if op == 'lan' else (victim, op)
            try:
                result, expect = self.dir.discover(snapshot, fail)
            except Exception as ex:
                self._fail('discover-raised', 'discover() raised {!r}'.format(
                    ex))
                return
            if bool(result) != expect:
                self._fail('discover-result',
                           'failed discover() returned {!r}'.format(result))

        @rule(dt=st.sampled_from([0, 0.5, 1, 2.25, 29, 30, 30.25, 31, 70, 100,
                                  101, 250, 301]))
        def advance(self, dt):
            self._ensure()
            self.dir.advance(dt)

        @rule(snapshot=snapshots())
        def refresh(self, snapshot):
            self._ensure()
            try:
                self.dir.refresh(snapshot)
            except Exception as ex:     # noqa: expiry itself must not fail
                self._fail('refresh-raised', 'refresh() raised {!r} with '
                           'light_gc_time = {!r}'.format(
                               ex, self.dir.gc_time))

        @rule(snapshot=snapshots(), extra=st.sampled_from([0.25, 1, 50]))
        def age_out(self, snapshot, extra):
            # everything not in the snapshot is now too old: expiry of lights
            # that moved before, and room for them to come back elsewhere
            self._ensure()
            self.dir.advance(float(self.dir.gc_time) + extra)
            try:
                self.dir.refresh(snapshot)
            except Exception as ex:     # noqa
                self._fail('refresh-raised', 'refresh() raised {!r}'.format(
                    ex))

        @rule(snapshot=snapshots(), victim=st.integers(0, 5),
              op=st.sampled_from(['lan', 'get_label', 'get_group',
                                  'get_location']))
        def refresh_fails(self, snapshot, victim, op):
            # the discovery half of a refresh gets no answer: the lights
            # that have not been seen for too long are dropped all the same
            self._ensure()
            fail = 'lan' if op == 'lan' else (victim, op)
            try:
                self.dir.refresh(snapshot, fail)
            except Exception as ex:     # noqa
                self._fail('refresh-raised', 'refresh() with an unanswered '
                           'discovery raised {!r}'.format(ex))

        def _fail(self, sig, what):
            if self.failed is None:
                self.failed = (sig, what)

        @invariant()
        def consistent(self):
            if self.dir is None:
                return
            for sig, what in self.dir.problems()[:1]:
                self._fail(sig, what)
            if self.failed is not None:
                sig, what = self.failed
                acc.fail(sig, '{} after {}'.format(what, self.dir.log),
                         {'kind': 'history', 'gc': self.dir.gc_time,
                          'steps': self.dir.log})
                self.failed = None
                self.dir = None     # start afresh; the search goes on

        def teardown(self):
            if self.dir is not None:
                notes = self.dir.notes
                nontrivial = bool(notes & {
                    'move-then-vanish', 'vanish-then-reappear-elsewhere',
                    'expired-last-member-of-group', 'duplicate-label'})
                acc.case(key=repr(self.dir.log), nontrivial=nontrivial,
                         labels=sorted(notes) + ['history'],
                         sample={'gc_time': self.dir.gc_time,
                                 'steps': self.dir.log[:8]}
                         if nontrivial and len(acc.samples) < 3
                         else None)
    return DirectoryMachine


def replay_history(acc, gc, steps):
    directory = Directory(gc)
    for index, step in enumerate(steps):
        kind = step[0]
        try:
            if kind == 'discover':
                fail = step[2]
                if isinstance(fail, list):
                    fail = tuple(fail)
                result, expect = directory.discover(
                    [tuple(x) for x in step[1]], fail)
                if bool(result) != expect:
                    acc.fail('discover-result', 'discover() returned {!r} at '
                             'step {}'.format(result, index),
                             {'kind': 'history', 'gc': gc, 'steps': steps})
            elif kind == 'advance':
                directory.advance(step[1])
            else:
                fail = step[2] if len(step) > 2 else None
                if isinstance(fail, list):
                    fail = tuple(fail)
                directory.refresh([tuple(x) for x in step[1]], fail)
        except Exception as ex:
            acc.fail('raised', '{} raised {!r}'.format(kind, ex),
                     {'kind': 'history', 'gc': gc, 'steps': steps})
            return directory
        for sig, what in directory.problems()[:1]:
            acc.fail(sig, '{} after {}'.format(what, steps[:index + 1]),
                     {'kind': 'history', 'gc': gc,
                      'steps': steps[:index + 1]})
            return directory
    return directory


def small_actions(reduced):
    names, groups, locs = ['n1', 'n2'], ['g1', 'g2'], ['l1', 'l2']
    options = [None] + [(g, loc) for g in groups for loc in locs]
    if reduced:
        options = [None, ('g1', 'l1'), ('g2', 'l1'), ('g1', 'l2')]
    snaps = []
    for a in options:
        for b in options:
            snap = []
            if a:
                snap.append(('n1',) + a)
            if b:
                snap.append(('n2',) + b)
            snaps.append(snap)
    actions = [('discover', snap, None) for snap in snaps]
    actions.append(('discover', snaps[-1], 'lan'))
    actions += [('advance', 60), ('advance', 101)]
    actions += [('refresh', snap) for snap in snaps]
    return actions


def run_exhaustive(acc, depth, reduced, part, parts):
    actions = small_actions(reduced)
    total = 0
    for length in range(1, depth + 1):
        for index, history in enumerate(itertools.product(
                range(len(actions)), repeat=length)):
            if index % parts != part:
                continue
            steps = [list(actions[i]) for i in history]
            directory = replay_history(acc, 100, steps)
            total += 1
            notes = directory.notes
            nontrivial = bool(notes & {
                'move-then-vanish', 'vanish-then-reappear-elsewhere',
                'expired-last-member-of-group'})
            acc.case(key=repr(steps), nontrivial=nontrivial,
                     labels=sorted(notes) + ['exhaustive-history'],
                     sample={'steps': steps} if nontrivial and len(acc.samples) < 2
                     else None)
    acc.extra['exhaustive_histories'] = total


# ---- SortedList ---------------------------------------------------------------------
# names of lights, groups and locations differ in case too: the order is the
# plain string order everywhere ('Den' < 'attic')
VALUES = ['a', 'b', 'c', 'd', 'e', 'f', 'g', 'B', 'Den', 'E']
PROBES = VALUES + ['', 'aa', 'c5', 'zz', 'C', 'Z']


def check_sorted_list(acc, ops, probes, walk, initial=()):
    from bardolph.lib.sorted_list import SortedList
    # made from a collection of distinct names in any order (the way the
    # group and location name lists are made), then edited
    real = SortedList(list(initial)) if initial else SortedList()
    model = sorted(initial)
    case = {'kind': 'sorted', 'ops': ops, 'probes': probes, 'walk': walk,
            'initial': list(initial)}
    if list(real) != model:
        acc.fail('sortedlist-content', 'made from {} the list is {} expected '
                 '{}'.format(list(initial), list(real), model), case)
        return
    for op, value in ops:
        if op == 'add':
            real.add(value)
            if value not in model:
                bisect.insort(model, value)
        else:
            real.remove(value)
            if value in model:
                model.remove(value)
        if list(real) != model:
            acc.fail('sortedlist-content', 'after {} the list is {} expected '
                     '{}'.format(ops, list(real), model), case)
            return
    absent_probe = False
    for probe in probes:
        want_next = next((v for v in model if v > probe), None)
        want_prev = next((v for v in reversed(model) if v < probe), None)
        if probe not in model:
            absent_probe = True
        if real.next(probe) != want_next:
            acc.fail('sortedlist-next', 'next({!r}) in {} is {!r} expected '
                     '{!r}'.format(probe, model, real.next(probe), want_next),
                     case)
        if real.prev(probe) != want_prev:
            acc.fail('sortedlist-prev', 'prev({!r}) in {} is {!r} expected '
                     '{!r}'.format(probe, model, real.prev(probe), want_prev),
                     case)
        if real.has(probe) != (probe in model):
            acc.fail('sortedlist-has', 'has({!r}) wrong'.format(probe), case)
    if real.first() != (model[0] if model else None) or real.last() != (
            model[-1] if model else None):
        acc.fail('sortedlist-ends', 'first/last wrong for {}'.format(model),
                 case)
    # in-progress iteration (what DNEXT / DNEXTM do), with edits in between
    removed_current = False
    for forward in (True, False):
        lst = SortedList(model)
        survivors = set(model)
        visited = []
        current = lst.first() if forward else lst.last()
        steps = 0
        edits = list(walk)
        while current is not None and steps < 40:
            visited.append(current)
            steps += 1
            if edits:
                op, value = edits.pop(0)
                if op == 'remove':
                    if value == current:
                        removed_current = True
                    lst.remove(value)
                    survivors.discard(value)
                else:
                    lst.add(value)
            current = lst.next(current) if forward else lst.prev(current)
        ordered = all((a < b) if forward else (a > b)
                      for a, b in zip(visited, visited[1:]))
        missed = [v for v in survivors if v in model and v not in visited]
        if steps >= 40 or not ordered or missed:
            acc.fail('sortedlist-iteration',
                     '{} iteration over {} with edits {} visited {} '
                     '(missed {})'.format('forward' if forward else 'backward',
                                          model, walk, visited, missed), case)
    acc.case(key=repr(case), nontrivial=absent_probe or removed_current,
             labels=['sortedlist'] + (['removed-current'] if removed_current
                                      else []),
             sample=case if removed_current and len(acc.samples) < 2
             else None)


def plan(tier, seed_value):
    specs = []
    per = 6000 // 16 if tier == 'thorough' else 60
    for k in range(16):
        specs.append({'kind': 'machine', 'seed': seed_value * 1000 + k,
                      'examples': per})
        specs.append({'kind': 'exhaustive', 'depth': 3, 'reduced': False,
                      'part': k, 'parts': 16})
        specs.append({'kind': 'sorted', 'seed': seed_value * 1000 + 50 + k,
                      'examples': 4000 if tier == 'thorough' else 300})
    if tier == 'thorough':
        for k in range(32):
            specs.append({'kind': 'exhaustive', 'depth': 4, 'reduced': True,
                          'part': k, 'parts': 32})
    return specs


def run_shard(spec):
    acc = Acc()
    if spec['kind'] == 'machine':
        machine = seed(spec['seed'])(machine_class(acc))
        from hypothesis import settings, HealthCheck
        run_state_machine_as_test(machine, settings=settings(
            max_examples=spec['examples'], stateful_step_count=12,
            database=None, deadline=None, derandomize=False,
            report_multiple_bugs=False,
            suppress_health_check=list(HealthCheck)))
    elif spec['kind'] == 'exhaustive':
        run_exhaustive(acc, spec['depth'], spec['reduced'], spec['part'],
                       spec['parts'])
    else:
        op = st.tuples(st.sampled_from(['add', 'add', 'remove']),
                       st.sampled_from(VALUES))

        @seed(spec['seed'])
        @progbase.hyp_settings(spec['examples'])
        @given(st.lists(op, max_size=12),
               st.lists(st.sampled_from(PROBES), min_size=1, max_size=6),
               st.lists(op, max_size=6),
               st.lists(st.sampled_from(VALUES), max_size=5, unique=True))
        def run(ops, probes, walk, initial):
            check_sorted_list(acc, [list(o) for o in ops], list(probes),
                              [list(o) for o in walk], list(initial))
        run()
    return acc


def finish(merged, tier):
    merged.extra['exhaustive_parts'] = {
        'all histories up to 3 steps over 2 names x 2 groups x 2 locations':
        True,
        'depth 4 over reduced action set': tier == 'thorough'}


def replay(case):
    acc = Acc()
    if case['kind'] == 'history':
        replay_history(acc, case['gc'], case['steps'])
    else:
        check_sorted_list(acc, case['ops'], case['probes'], case['walk'],
                          case.get('initial', ()))
    return [(f['sig'], f['what']) for f in acc.failures.values()]
