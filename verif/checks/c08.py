"""C08 - queued jobs run one at a time, in order, exactly once; the queue
drains; background jobs are reported exactly while they run."""
import itertools

from hypothesis import given, seed, strategies as st

from verif import env  # noqa: F401
from verif.checks import progbase
from verif.runner import Acc

ID = 'C08'
LEVEL = 'exploration'
RULE = (
    'Schedule exploration on a deterministic scheduler that owns every '
    'thread switch: the real JobControl and Agent run on real threads of '
    'which exactly one runs at a time, yielding before every source line of '
    'job_control.py and at every lock / thread operation. Scenario = 1..3 '
    'client threads each issuing 1..4 calls from add_job, insert_job, '
    'spawn_job (distinct names), stop_job, stop_current (idle or not), has_jobs, is_running, get_current, '
    'get_queued; job bodies are scripted (yield, sleep, raise, finish; a '
    'stop request ends them at their next step). Schedule = generated '
    'preemptions {step -> thread} + choices at blocking points; the thorough '
    'tier also enumerates ALL schedules with at most 2 preemptions for fixed '
    'scenarios. Oracle over the recorded history: no two queued jobs '
    'overlap; the order of starts is explained by SOME linearisation of the '
    'enqueue calls consistent with real-time order against a deque model '
    '(Wing-Gong search); every queued job starts exactly once; a raising job '
    'is followed by the next; at quiescence has_jobs() is False, current is '
    'None, queue and background table are empty; is_running(name) is True '
    'for observations inside a background job\'s execution (by clients, '
    'and by the job itself, which must also find itself in '
    'get_background()) and False after '
    'its thread has ended; no deadlock, no lost wake-up (step limit), no '
    'exception out of a public call. Non-trivial = >= 2 jobs and >= 1 '
    'preemption taken while the preempted thread was inside job_control.py. '
    'Distinct by scenario + schedule.')
ASSUMPTIONS = [
    'Switches happen at source-line granularity inside job_control.py and at '
    'shim calls, not between byte-codes of one line (DESIGN 2.6).',
    'clear_queue is not part of these scenarios (cleared jobs never start is '
    'covered by C20 / C09).',
]


# ---- running one scenario ----------------------------------------------------------
def run_scenario(scenario, preemptions, choices, step_limit=6000):
    from verif import sched as sched_module
    import bardolph.lib.job_control as job_control
    from bardolph.lib.job_control import Job, JobControl
    scheduler = sched_module.Scheduler(
        preemptions=preemptions, choices=choices, step_limit=step_limit,
        trace_files=[job_control.__file__])

    class ScriptedJob(Job):
        def __init__(self, jid, body):
            self.jid = jid
            self.body = body
            self.stop_requested = False

        def execute(self):
            scheduler.record('start', self.jid)
            try:
                for step in self.body:
                    if self.stop_requested:
                        break
                    if step[0] == 'yield':
                        scheduler.yield_point()
                    elif step[0] == 'sleep':
                        scheduler.sleep(step[1])
                    elif step[0] == 'self':
                        # the job asks the controller about itself
                        control = holder['control']
                        name = 'j{}'.format(self.jid)
                        scheduler.record(
                            'self-report', self.jid,
                            control.is_running(name),
                            name in [a.name for a in
                                     list(control.get_background())])
                    elif step[0] == 'raise':
                        raise RuntimeError('job {} fails'.format(self.jid))
            finally:
                scheduler.record('end', self.jid)

        def request_stop(self):
            self.stop_requested = True

    holder = {}

    def client(index, ops):
        def body():
            control = holder['control']
            for number, op in enumerate(ops):
                tag = (index, number)
                scheduler.record('call', tag, op)
                result = None
                try:
                    kind = op[0]
                    if kind in ('add', 'insert'):
                        job = ScriptedJob(op[1], scenario['jobs'][str(op[1])])
                        fn = control.add_job if kind == 'add' \
                            else control.insert_job
                        agent = fn(job, 'j{}'.format(op[1]))
                        result = agent is not None
                    elif kind == 'spawn':
                        job = ScriptedJob(op[1], scenario['jobs'][str(op[1])])
                        agent = control.spawn_job(job, 'j{}'.format(op[1]))
                        result = agent is not None
                    elif kind == 'stop':
                        result = control.stop_job('j{}'.format(op[1]))
                    elif kind == 'stop_current':
                        # whether or not anything is current
                        result = control.stop_current()
                    elif kind == 'has_jobs':
                        result = control.has_jobs()
                    elif kind == 'is_running':
                        result = control.is_running('j{}'.format(op[1]))
                    elif kind == 'get_current':
                        current = control.get_current()
                        result = None if current is None else current.name
                    elif kind == 'get_queued':
                        result = [a.name for a in control.get_queued()]
                    elif kind == 'pause':
                        scheduler.sleep(op[1])
                except Exception as ex:     # noqa: a public call must not raise
                    scheduler.record('client-exception', tag, repr(ex))
                scheduler.record('ret', tag, op, result)
        return body

    with sched_module.Patched(scheduler, [job_control]):
        holder['control'] = JobControl()
        outcome = scheduler.run(*[client(i, ops) for i, ops in enumerate(
            scenario['clients'])])
        control = holder['control']
        final = None
        if outcome == 'finished':
            final = {'has_jobs': control.has_jobs(),
                     'current': control.get_current(),
                     'queued': len(control.get_queued()),
                     'background': len(control._background)}
    return scheduler, outcome, final


# ---- oracle ---------------------------------------------------------------------------------
def analyse(scenario, scheduler, outcome, final):
    """[(sig, what)]"""
    problems = []
    log = scheduler.log
    if outcome != 'finished':
        where = scheduler.detail
        problems.append((outcome, '{}: {}'.format(outcome, where)))
        return problems
    queued_ids = [op[1] for ops in scenario['clients'] for op in ops
                  if op[0] in ('add', 'insert')]
    spawned_ids = [op[1] for ops in scenario['clients'] for op in ops
                   if op[0] == 'spawn']
    starts = [e[4] for e in log if e[3] == 'start']
    for jid in queued_ids + spawned_ids:
        count = starts.count(jid)
        if count != 1:
            problems.append(('exactly-once',
                             'job {} was started {} times'.format(jid, count)))
    # mutual exclusion of queued jobs
    active = None
    for event in log:
        if event[3] == 'start' and event[4] in queued_ids:
            if active is not None:
                problems.append(('overlap',
                                 'queued job {} started while {} was running'
                                 .format(event[4], active)))
                break
            active = event[4]
        elif event[3] == 'end' and event[4] == active:
            active = None
    for event in log:
        if event[3] == 'client-exception':
            problems.append(('client-exception',
                             'call {} raised {}'.format(event[4], event[5])))
    if final is not None and (final['has_jobs'] or final['current'] is not None
                              or final['queued'] or final['background']):
        problems.append(('not-drained',
                         'at quiescence has_jobs={} current={} queued={} '
                         'background={}'.format(
                             final['has_jobs'], final['current'],
                             final['queued'], final['background'])))
    if not problems and not linearisable(log, set(queued_ids)):
        problems.append(('start-order',
                         'no linearisation of the add/insert calls explains '
                         'the order in which jobs started: {}'.format(
                             [e[4] for e in log if e[3] == 'start'
                              and e[4] in queued_ids])))
    for event in log:
        if event[3] == 'self-report' and event[4] in spawned_ids and not (
                event[5] and event[6]):
            problems.append(('background-job-not-reported-while-executing',
                             'background job j{} asked about itself while '
                             'executing: is_running -> {}, listed by '
                             'get_background -> {}'.format(
                                 event[4], event[5], event[6])))
    # is_running observations of background jobs
    position = {id(e): i for i, e in enumerate(log)}
    for event in log:
        if event[3] == 'ret' and event[5][0] == 'is_running' and \
                event[5][1] in spawned_ids:
            jid = event[5][1]
            call = next(e for e in log if e[3] == 'call'
                        and e[4] == event[4])
            c, r = position[id(call)], position[id(event)]
            start = next((position[id(e)] for e in log
                          if e[3] == 'start' and e[4] == jid), None)
            end = next((position[id(e)] for e in log
                        if e[3] == 'end' and e[4] == jid), None)
            runner_name = next((e[2] for e in log if e[3] == 'start'
                                and e[4] == jid), None)
            gone = next((position[id(e)] for e in log
                         if e[3] == 'thread-done'
                         and e[4] == runner_name), None)
            spawn_call = next((position[id(e)] for e in log
                               if e[3] == 'call' and e[5][0] == 'spawn'
                               and e[5][1] == jid), None)
            value = event[6]
            if start is not None and end is not None and \
                    start < c and r < end and value is not True:
                problems.append(('is-running-false-while-executing',
                                 'is_running(j{}) returned {} while the job '
                                 'was executing'.format(jid, value)))
            if value is True and ((gone is not None and gone < c) or (
                    spawn_call is not None and r < spawn_call)):
                problems.append(('is-running-true-when-not-running',
                                 'is_running(j{}) returned True {} the job'
                                 .format(jid, 'after the end of' if gone
                                         is not None and gone < c
                                         else 'before')))
    return problems


def linearisable(log, queued_ids):
    """Wing-Gong style search: is there an order of the enqueue calls, each
    taking effect between its call and its return, under which a deque model
    (add = append, insert = prepend, head starts when nothing is active)
    produces the observed starts?"""
    events = []
    for event in log:
        kind = event[3]
        if kind in ('call', 'ret') and event[5][0] in ('add', 'insert'):
            events.append((kind, event[4], event[5]))
        elif kind in ('start', 'end') and event[4] in queued_ids:
            events.append((kind, event[4]))
    seen = set()

    def activate(queue, active):
        """The controller starts the head as soon as nothing is active."""
        if active is None and queue:
            return queue[1:], queue[0]
        return queue, active

    def search(index, open_ops, queue, active):
        # active: None, or the id of the job that has been taken off the
        # queue (its thread may not have reached its first statement yet)
        key = (index, open_ops, queue, active)
        if key in seen:
            return False
        seen.add(key)
        for op in open_ops:
            tag, kind, jid = op
            new_queue = queue + (jid,) if kind == 'add' else (jid,) + queue
            if search(index, open_ops - {op}, *activate(new_queue, active)):
                return True
        if isinstance(active, tuple):
            # the completion callback of the finished job takes effect: the
            # slot is free and the head of the queue, if any, is started
            if search(index, open_ops, *activate(queue, None)):
                return True
        if index == len(events):
            return not open_ops and not queue
        event = events[index]
        if event[0] == 'call':
            op = (event[1], event[2][0], event[2][1])
            return search(index + 1, open_ops | {op}, queue, active)
        if event[0] == 'ret':
            if any(op[0] == event[1] for op in open_ops):
                return False        # must have taken effect before returning
            return search(index + 1, open_ops, queue, active)
        if event[0] == 'start':
            if active != event[1]:
                return False
            return search(index + 1, open_ops, queue, active)
        if event[0] == 'end':
            if active != event[1]:
                return False
            # finished, but the controller still counts it as active until
            # its completion callback has run
            return search(index + 1, open_ops, queue, ('finishing', event[1]))
        return False
    return search(0, frozenset(), (), None)


# ---- scenarios and schedules ------------------------------------------------------------------
body_step = st.one_of(st.just(['yield']), st.just(['yield']),
                      st.tuples(st.just('sleep'), st.sampled_from(
                          [0.25, 0.5, 1.0])).map(list),
                      st.just(['raise']))


@st.composite
def scenarios(draw):
    n_clients = draw(st.integers(1, 3))
    clients = []
    jobs = {}
    next_id = itertools.count(1)
    for _ in range(n_clients):
        ops = []
        for _ in range(draw(st.integers(1, 4))):
            kind = draw(st.sampled_from(
                ['add', 'add', 'add', 'insert', 'insert', 'spawn', 'observe',
                 'stop', 'stop_current', 'pause']))
            if kind in ('add', 'insert', 'spawn'):
                jid = next(next_id)
                body = draw(st.lists(body_step, max_size=3))
                if ['raise'] in body:
                    body = body[:body.index(['raise']) + 1]
                jobs[str(jid)] = body
                ops.append([kind, jid])
            elif kind == 'observe':
                which = draw(st.sampled_from(
                    ['has_jobs', 'get_current', 'get_queued', 'is_running']))
                if which == 'is_running':
                    ops.append(['is_running', draw(st.integers(1, 6))])
                else:
                    ops.append([which])
            elif kind == 'stop':
                ops.append(['stop', draw(st.integers(1, 6))])
            elif kind == 'stop_current':
                ops.append(['stop_current'])
            else:
                ops.append(['pause', draw(st.sampled_from([0.25, 0.5]))])
        clients.append(ops)
    spawned = [op[1] for ops in clients for op in ops if op[0] == 'spawn']
    for ops in clients:
        for op in ops:
            if op[0] == 'is_running' and spawned and draw(
                    st.integers(0, 4)) > 0:
                op[1] = draw(st.sampled_from(spawned))
    for jid in spawned:
        if draw(st.booleans()):
            # long enough to be observed while it runs
            jobs[str(jid)] = [['yield'], ['sleep', 1.0]] + jobs[str(jid)]
        if draw(st.booleans()):
            position = draw(st.integers(0, len(jobs[str(jid)])))
            if ['raise'] not in jobs[str(jid)][:position]:
                jobs[str(jid)].insert(position, ['self'])
    return {'clients': clients, 'jobs': jobs}


@st.composite
def schedules(draw, max_step=400):
    count = draw(st.integers(0, 6))
    preemptions = {}
    for _ in range(count):
        preemptions[str(draw(st.integers(1, max_step)))] = draw(
            st.integers(0, 4))
    choices = draw(st.lists(st.integers(0, 4), max_size=12))
    return {'preemptions': preemptions, 'choices': choices}


FIXED = [
    {'clients': [[['add', 1], ['add', 2]], [['insert', 3]]],
     'jobs': {'1': [['yield']], '2': [], '3': [['yield']]}},
    {'clients': [[['add', 1]], [['add', 2]], [['add', 3]]],
     'jobs': {'1': [], '2': [['raise']], '3': []}},
    {'clients': [[['add', 1], ['has_jobs']], [['spawn', 2],
                                             ['is_running', 2]]],
     'jobs': {'1': [['yield']], '2': [['self'], ['yield'], ['self']]}},
    {'clients': [[['add', 1], ['get_current']],
                 [['spawn', 2], ['pause', 0.25], ['is_running', 2],
                  ['pause', 2.0], ['is_running', 2]]],
     'jobs': {'1': [['sleep', 1.0]], '2': [['yield'], ['sleep', 1.0]]}},
    {'clients': [[['add', 1], ['insert', 2]], [['add', 3], ['stop', 1]]],
     'jobs': {'1': [['sleep', 0.5], ['yield']], '2': [], '3': [['raise']]}},
]


def check(acc, scenario, schedule, label='random'):
    preemptions = {int(k): v for k, v in schedule['preemptions'].items()}
    scheduler, outcome, final = run_scenario(
        scenario, preemptions, list(schedule['choices']))
    if outcome == 'harness-timeout':
        raise env.HarnessError('scheduler timed out: {}'.format(
            scheduler.detail))
    problems = analyse(scenario, scheduler, outcome, final)
    n_jobs = len(scenario['jobs'])
    inside = [p for p in scheduler.preemptions_taken
              if p[3] and p[3][0] == 'job_control.py']
    nontrivial = n_jobs >= 2 and bool(inside)
    acc.case(key=repr((scenario, schedule)), nontrivial=nontrivial,
             labels=[label, 'jobs:{}'.format(min(n_jobs, 4)),
                     'preemptions-taken:{}'.format(min(len(
                         scheduler.preemptions_taken), 3))],
             sample={'scenario': scenario,
                     'preemptions_taken': [list(p[:3]) + [list(p[3])]
                                           for p in inside[:3]],
                     'steps': scheduler.steps}
             if nontrivial and len(acc.samples) < 3 else None)
    acc.extra['scheduler_steps'] = acc.extra.get('scheduler_steps', 0) + \
        scheduler.steps
    for sig, what in problems[:1]:
        acc.fail(sig, '{}\nscenario {}\nschedule {}\npreemptions taken {}'
                 .format(what, scenario, schedule,
                         scheduler.preemptions_taken[:6]),
                 {'kind': 'schedule', 'scenario': scenario,
                  'schedule': schedule})
    return scheduler


def enumerate_fixed(acc, index, part, parts, depth):
    scenario = FIXED[index]
    base = check(acc, scenario, {'preemptions': {}, 'choices': []},
                 'enumerated')
    steps = base.steps
    threads = 5
    singles = [(s, t) for s in range(1, steps + 1) for t in range(threads)]
    count = 0
    for number, (s, t) in enumerate(singles):
        if number % parts != part:
            continue
        check(acc, scenario, {'preemptions': {str(s): t}, 'choices': []},
              'enumerated')
        count += 1
    if depth >= 2:
        pairs = itertools.combinations(range(1, steps + 1), 2)
        for number, (s1, s2) in enumerate(pairs):
            if number % parts != part:
                continue
            for t1, t2 in ((0, 0), (0, 1), (1, 0), (1, 1)):
                check(acc, scenario, {'preemptions': {str(s1): t1,
                                                      str(s2): t2},
                                      'choices': []}, 'enumerated')
                count += 1
    acc.extra['enumerated_schedules'] = acc.extra.get(
        'enumerated_schedules', 0) + count


def plan(tier, seed_value):
    specs = []
    per = 2500 if tier == 'thorough' else 400
    for k in range(16):
        specs.append({'kind': 'random', 'seed': seed_value * 1000 + k,
                      'examples': per})
    for index in range(len(FIXED)):
        parts = 8 if tier == 'thorough' else 4
        for part in range(parts):
            specs.append({'kind': 'enumerate', 'index': index, 'part': part,
                          'parts': parts,
                          'depth': 2 if tier == 'thorough' else 1})
    for k in range(4):
        specs.append({'kind': 'lsrun', 'seed': seed_value * 1000 + k,
                      'examples': 12 if tier == 'thorough' else 3})
    return specs


# ---- the documented way of queuing several scripts: lsrun a.ls b.ls c.ls -------------
# A real process, because what happens to the queue when the thread that
# filled it (the main thread) returns is decided by the interpreter.
@st.composite
def command_lines(draw):
    count = draw(st.integers(1, 4))
    scripts = []
    for index in range(count):
        delay = draw(st.sampled_from([0, 0, 0.2, 0.4]))
        body = 'println "{}-begin"'.format(index)
        if delay:
            body += ' time {} wait'.format(delay)
        body += ' println "{}-end"'.format(index)
        scripts.append(body)
    return scripts


def check_command_line(acc, scripts):
    import os
    import shutil
    import subprocess
    import sys
    directory = env.work_dir(ID, 'lsrun-{}'.format(os.getpid()))
    files = []
    for index, text in enumerate(scripts):
        path = os.path.join(directory, 's{}.ls'.format(index))
        with open(path, 'w') as dst:
            dst.write(text + '\n')
        files.append(path)
    environment = dict(os.environ, PYTHONPATH=env.REPO,
                       PYTHONWARNINGS='ignore')
    try:
        done = subprocess.run(
            [sys.executable, '-m', 'bardolph.controller.run', '-f'] + files,
            cwd=env.REPO, env=environment, capture_output=True, text=True,
            timeout=120)
    except subprocess.TimeoutExpired:
        # a wall-clock budget, not an oracle: inconclusive (a queue that
        # does not drain is decided by the scheduled runs, where time is
        # virtual)
        acc.case(key=repr(scripts), labels=['lsrun', 'lsrun-inconclusive'])
        return
    finally:
        shutil.rmtree(directory, ignore_errors=True)
    want = []
    for index in range(len(scripts)):
        want += ['{}-begin'.format(index), '{}-end'.format(index)]
    got = [line for line in done.stdout.split('\n')
           if line.endswith(('-begin', '-end'))]
    timed = sum('time' in text for text in scripts)
    acc.case(key=repr(scripts), nontrivial=len(scripts) >= 2 and timed >= 1,
             labels=['lsrun', 'files:{}'.format(len(scripts))],
             sample={'scripts': scripts, 'stdout': got}
             if len(scripts) >= 2 and len(acc.samples) < 2 else None)
    if got != want:
        acc.fail('lsrun-queue',
                 'lsrun with {} files ran {} - expected every script once, in '
                 'order: {}\n{}'.format(len(scripts), got, want,
                                        done.stderr.strip()[-300:]),
                 {'kind': 'lsrun', 'scripts': scripts})


def run_shard(spec):
    acc = Acc()
    if spec['kind'] == 'lsrun':
        @seed(spec['seed'])
        @progbase.hyp_settings(spec['examples'])
        @given(command_lines())
        def run_lines(scripts):
            check_command_line(acc, scripts)
        run_lines()
        return acc
    if spec['kind'] == 'enumerate':
        enumerate_fixed(acc, spec['index'], spec['part'], spec['parts'],
                        spec['depth'])
        return acc

    @seed(spec['seed'])
    @progbase.hyp_settings(spec['examples'])
    @given(scenarios(), schedules())
    def run(scenario, schedule):
        check(acc, scenario, schedule)
    run()
    return acc


def finish(merged, tier):
    merged.extra['exhaustive_parts'] = {
        'all schedules with <= {} preemption(s) for {} fixed scenarios'.format(
            2 if tier == 'thorough' else 1, len(FIXED)): True}


def replay(case):
    acc = Acc()
    if case.get('kind') == 'lsrun':
        check_command_line(acc, case['scripts'])
        return [(f['sig'], f['what']) for f in acc.failures.values()]
    check(acc, case['scenario'], case['schedule'], 'replay')
    return [(f['sig'], f['what']) for f in acc.failures.values()]
