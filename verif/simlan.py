"""A simulated LIFX LAN at the `lifxlan` object boundary.

Only the third-party class `lifxlan.LifxLAN` is replaced; everything of
bardolph down to `lifx_lan_light` / `lifx_lan_api` / `retry` / `param_helper`
stays in place.  A SimDevice duck-types exactly the lifxlan surface bardolph
calls, logs every request with its raw arguments, checks it against the
protocol oracle, applies the fault plan and then updates the device state.
"""
import lifxlan
from lifxlan.errors import WorkflowException
from lifxlan.msgtypes import (GetDeviceChain, GetTileState64, SetTileState64)

U16 = 0xFFFF
U32 = 0xFFFFFFFF

PLAIN, MZ, MATRIX = 'plain', 'mz', 'matrix'


def _is_int(value):
    return isinstance(value, int) and not isinstance(value, bool)


class _Response:
    def __init__(self, **kwargs):
        self.__dict__.update(kwargs)


class SimDevice:
    def __init__(self, lan, spec):
        self.lan = lan
        self.label = spec['label']
        self.group = spec.get('group', 'g')
        self.location = spec.get('location', 'l')
        self.kind = spec.get('kind', PLAIN)
        self.color = list(spec.get('color', [0, 0, 0, 0]))
        self.power = spec.get('power', 0)
        self.zones = None
        self.cells = None
        self.height = self.width = None
        if self.kind == MZ:
            count = spec.get('zones', 8)
            self.zones = [list(c) for c in spec.get(
                'zone_colors', [[0, 0, 0, 0]] * count)]
        elif self.kind == MATRIX:
            self.height = spec.get('height', 6)
            self.width = spec.get('width', 5)
            cells = spec.get('cells')
            if cells is None:
                cells = [[0, 0, 0, 0]] * (self.height * self.width)
            self.cells = [list(c) for c in cells]
        self.log = []            # applied requests
        self.log_ordinals = []   # logical request ordinal of each log entry
        self.attempts = []       # every attempt incl. failed ones
        self.logical = 0         # ordinal of the logical request in progress
        self._fails_left = None

    # ---- plumbing --------------------------------------------------------
    def _request(self, op, *args, mutate=True):
        """Log, apply fault plan. Returns True if the request goes through."""
        entry = (self.label, op) + tuple(args)
        self.attempts.append(entry)
        self.lan.attempts.append(entry)
        left = self.lan.op_faults.get((self.label, op), 0)
        if left > 0:
            self.lan.op_faults[(self.label, op)] = left - 1
            self.lan.failed_attempts.append(entry)
            raise WorkflowException(
                'simulated: no answer from {} to {}'.format(self.label, op))
        plan = self.lan.fault_plan.get(self.label)
        if plan:
            if self._fails_left is None:
                self._fails_left = plan.get(self.logical, 0)
            if self._fails_left > 0:
                self._fails_left -= 1
                self.lan.failed_attempts.append(entry)
                raise WorkflowException(
                    'simulated: no answer from {} to {}'.format(
                        self.label, op))
        self.lan.charge(op)
        self.log.append(entry)
        self.log_ordinals.append(self.logical)
        self.lan.log.append(entry)
        if self.lan.on_request is not None:
            self.lan.on_request(entry)
        return True

    def begin_logical(self):
        self.logical += 1
        self._fails_left = None

    def _proto(self, ok, message):
        if not ok:
            self.lan.protocol_errors.append(
                '{}: {}'.format(self.label, message))

    def _check_color(self, color, where):
        ok = (isinstance(color, (list, tuple)) and len(color) == 4 and
              all(_is_int(x) and 0 <= x <= U16 for x in color))
        self._proto(ok, '{} colour {!r} is not four ints in 0..65535'.format(
            where, color))
        return ok

    def _check_duration(self, duration, where):
        ok = _is_int(duration) and 0 <= duration <= U32
        self._proto(ok, '{} duration {!r} is not an int in 0..2^32-1'.format(
            where, duration))
        return ok

    # ---- identification --------------------------------------------------
    def get_label(self):
        self._request('get_label')
        return self.label

    def get_group(self):
        self._request('get_group')
        return self.group

    def get_location(self):
        self._request('get_location')
        return self.location

    def get_product_features(self):
        self._request('get_product_features')
        return {'color': True, 'multizone': self.kind == MZ,
                'matrix': self.kind == MATRIX, 'chain': False}

    def get_product_name(self):
        self._request('get_product_name')
        return {PLAIN: 'LIFX A19', MZ: 'LIFX Z', MATRIX: 'LIFX Candle'}[
            self.kind]

    # ---- light -----------------------------------------------------------
    def get_color(self):
        self._request('get_color', tuple(self.color))
        return tuple(self.color)

    def set_color(self, color, duration=0, rapid=False):
        self._check_color(color, 'set_color')
        self._check_duration(duration, 'set_color')
        self._request('set_color', list(color), duration)
        self.color = list(color)
        if self.zones is not None:
            self.zones = [list(color) for _ in self.zones]
        if self.cells is not None:
            self.cells = [list(color) for _ in self.cells]

    def get_power(self):
        self._request('get_power')
        return self.power

    def set_power(self, power, duration=0, rapid=False):
        ok = power is True or power is False or (
            _is_int(power) and power in (0, 1, U16))
        self._proto(ok, 'set_power level {!r} is not a level lifxlan accepts'
                    .format(power))
        self._check_duration(duration, 'set_power')
        self._request('set_power', 0 if power in (0, False) else U16, duration)
        self.power = 0 if power in (0, False) else U16

    # ---- multizone -------------------------------------------------------
    def get_color_zones(self, start=None, end=None):
        self._request('get_color_zones', start, end)
        if self.zones is None:
            raise WorkflowException('not a multizone device')
        if start is not None and end is not None:
            return [tuple(c) for c in self.zones[start:end]]
        return [tuple(c) for c in self.zones]

    def set_zone_color(self, start_index, end_index, color, duration=0,
                       rapid=False, apply=1):
        self._check_color(color, 'set_zone_color')
        self._check_duration(duration, 'set_zone_color')
        ok = (_is_int(start_index) and _is_int(end_index) and
              0 <= start_index <= U16 and 0 <= end_index <= U16)
        self._proto(ok, 'set_zone_color indices {!r}..{!r} not ints in range'
                    .format(start_index, end_index))
        self._request('set_zone_color', start_index, end_index, list(color),
                      duration)
        if self.zones is not None and ok:
            # Convention of bardolph's own fake and of machine.py: [a, e).
            for zone in range(start_index, min(end_index, len(self.zones))):
                self.zones[zone] = list(color)

    # ---- matrix ----------------------------------------------------------
    def req_with_resp(self, msg_type, response_type, payload=None, **_):
        if msg_type is GetDeviceChain:
            self._request('get_device_chain')
            tile = {'width': self.width or 0, 'height': self.height or 0}
            return _Response(start_index=0, total_count=1,
                             tile_devices=[tile])
        if msg_type is GetTileState64:
            self._request('get_tile_state')
            cells = [tuple(c) for c in self.cells or []]
            cells += [(0, 0, 0, 0)] * (64 - len(cells))
            return _Response(colors=cells, width=self.width, x=0, y=0,
                             tile_index=0)
        raise AssertionError('unexpected request {}'.format(msg_type))

    def fire_and_forget(self, msg_type, payload=None, **_):
        if msg_type is not SetTileState64:
            raise AssertionError('unexpected message {}'.format(msg_type))
        payload = dict(payload or {})
        colors = payload.get('colors')
        need = (self.height or 0) * (self.width or 0)
        ok = isinstance(colors, (list, tuple)) and len(colors) >= need
        self._proto(ok, 'tile payload carries {} colours, device has {}'
                    .format(len(colors) if ok or isinstance(
                        colors, (list, tuple)) else '?', need))
        if isinstance(colors, (list, tuple)):
            for color in colors:
                if not self._check_color(color, 'tile cell'):
                    break
        self._check_duration(payload.get('duration'), 'tile')
        self._proto(payload.get('width') == self.width and
                    payload.get('height', self.height) == self.height,
                    'tile payload size {}x{} is not the device size {}x{}'
                    .format(payload.get('height'), payload.get('width'),
                            self.height, self.width))
        for key in ('tile_index', 'x', 'y', 'reserved'):
            self._proto(payload.get(key) == 0,
                        'tile payload {} = {!r}'.format(key, payload.get(key)))
        self._proto(payload.get('length') == 1, 'tile payload length != 1')
        if self.lan.pack_messages:
            try:
                SetTileState64(b'\0' * 6, 1, 1, payload).get_payload()
            except Exception as ex:   # anything bitstring refuses
                self._proto(False, 'tile payload does not pack: {}'.format(ex))
        cells = None
        if ok:
            cells = [list(c) for c in colors[:need]]
        self._request('set_tile', cells, payload.get('duration'))
        if cells is not None and self.cells is not None:
            self.cells = cells

    def snapshot(self):
        return {'label': self.label, 'color': list(self.color),
                'power': self.power,
                'zones': None if self.zones is None else
                [list(c) for c in self.zones],
                'cells': None if self.cells is None else
                [list(c) for c in self.cells]}


class _PlainLightObject:
    """What lifxlan returns for a device it could not classify: an object of
    class Light - no zone or tile methods - talking to the same device."""
    _ALLOWED = {'get_label', 'get_group', 'get_location',
                'get_product_features', 'get_product_name', 'get_color',
                'set_color', 'get_power', 'set_power', 'label', 'lan', 'kind',
                'req_with_resp', 'fire_and_forget', 'req_with_ack'}

    def __init__(self, device):
        object.__setattr__(self, '_device', device)

    def __getattr__(self, name):
        if name in self._ALLOWED:
            return getattr(self._device, name)
        raise AttributeError("'Light' object has no attribute '{}'".format(
            name))


class SimLan:
    """Stands in for lifxlan.LifxLAN. One instance per scenario."""
    current = None

    def __init__(self, specs=(), fault_plan=None, pack_messages=False):
        self.log = []
        self.attempts = []
        self.failed_attempts = []
        self.protocol_errors = []
        self.fault_plan = fault_plan or {}
        self.op_faults = {}         # (label, op) -> attempts still to fail
        self.pack_messages = pack_messages
        self.on_request = None
        self.work = None            # callable(op) -> charges virtual time
        self.discover_fails = 0     # next n get_lights() calls raise
        self.devices = [SimDevice(self, spec) for spec in specs]

    def set_population(self, specs):
        self.devices = [SimDevice(self, spec) for spec in specs]

    def charge(self, op):
        if self.work is not None:
            self.work(op)

    def device(self, label):
        for device in self.devices:
            if device.label == label:
                return device
        return None

    # ---- the lifxlan.LifxLAN surface ----------------------------------------
    def get_lights(self):
        entry = ('<lan>', 'get_lights')
        self.attempts.append(entry)
        if self.discover_fails > 0:
            self.discover_fails -= 1
            self.failed_attempts.append(entry)
            raise WorkflowException('simulated: discovery got no answers')
        out = []
        for device in self.devices:
            if self.op_faults.get((device.label, 'classify'), 0) > 0:
                # lifxlan's own scan got no answer to the version query it
                # classifies a device by, and hands over a plain Light object
                # (lifxlan.LifxLAN.discover_devices, `except WorkflowException`)
                self.op_faults[(device.label, 'classify')] -= 1
                self.failed_attempts.append((device.label, 'classify'))
                out.append(_PlainLightObject(device))
            else:
                out.append(device)
        return out

    def set_color_all_lights(self, color, duration=0, rapid=False):
        probe = SimDevice(self, {'label': '<all>'})
        probe._check_color(color, 'set_color_all_lights')
        probe._check_duration(duration, 'set_color_all_lights')
        entry = ('<all>', 'set_color', list(color), duration)
        self.attempts.append(entry)
        self.charge('set_color')
        self.log.append(entry)
        if self.on_request is not None:
            self.on_request(entry)
        for device in self.devices:
            device.color = list(color)
            if device.zones is not None:
                device.zones = [list(color) for _ in device.zones]
            if device.cells is not None:
                device.cells = [list(color) for _ in device.cells]

    def set_power_all_lights(self, power_level, duration=0, rapid=False):
        probe = SimDevice(self, {'label': '<all>'})
        ok = power_level is True or power_level is False or (
            _is_int(power_level) and power_level in (0, 1, U16))
        probe._proto(ok, 'set_power_all_lights level {!r} is not a level '
                     'lifxlan accepts'.format(power_level))
        probe._check_duration(duration, 'set_power_all_lights')
        level = 0 if power_level in (0, False) else U16
        entry = ('<all>', 'set_power', level, duration)
        self.attempts.append(entry)
        self.charge('set_power')
        self.log.append(entry)
        if self.on_request is not None:
            self.on_request(entry)
        for device in self.devices:
            device.power = level


def factory(num_lights=None):
    """What bardolph's LifxLanApi gets when it calls lifxlan.LifxLAN(n)."""
    assert SimLan.current is not None, 'no simulated LAN installed'
    return SimLan.current


def install(lan):
    SimLan.current = lan
    lifxlan.LifxLAN = factory
    return lan
