"""Bootstrapping shared by every check: paths, seed, determinism."""
import hashlib
import json
import os
import sys

VERIF = os.path.dirname(os.path.dirname(os.path.abspath(__file__)))
REPO = os.environ.get('VERIF_REPO', '/repo')

for _p in (VERIF, REPO):
    if _p in sys.path:
        sys.path.remove(_p)
sys.path[0:0] = [REPO, VERIF]
_deps = os.path.join(VERIF, '.deps')
if os.path.isdir(_deps) and _deps not in sys.path:
    sys.path.append(_deps)

os.environ.setdefault('AL_FONTES_JR_BARDOLPH_VERIF', '1')


def seed() -> int:
    try:
        return int(os.environ.get('VERIF_SEED', '1'))
    except ValueError:
        return 1


def work_dir(*parts) -> str:
    path = os.path.join(VERIF, '.work', *[str(p) for p in parts])
    os.makedirs(path, exist_ok=True)
    return path


def stable_hash(obj) -> str:
    """Hash of a JSON-able case, independent of PYTHONHASHSEED."""
    text = obj if isinstance(obj, str) else json.dumps(
        obj, sort_keys=True, default=repr)
    return hashlib.sha1(text.encode('utf-8', 'surrogatepass')).hexdigest()[:16]


class HarnessError(Exception):
    """A fault of the verification machinery itself (exit code 2)."""
