"""Run one generated program on the production stack and on the reference
interpreter and compare the traces (shared by C01-C04, C12, C17)."""
from verif import env  # noqa: F401
from verif.env import HarnessError
from verif.lang import printer, ref

OBSERVABLE = ('cmd', 'delay', 'wait_until', 'out', 'nl', 'get')


def observable(trace):
    return [event for event in trace if event[0] in OBSERVABLE]


def ast_features(program):
    """Static labels: constructs present and maximum nesting depth."""
    found = set()
    deepest = [0]

    def walk_body(body, depth, context):
        for s in body:
            walk(s, depth, context)

    def walk(s, depth, context):
        tag = s[0]
        found.add('stmt:' + tag)
        deepest[0] = max(deepest[0], depth)
        if tag == 'if':
            walk_body(s[2], depth + 1, context + ('if',))
            if s[3]:
                found.add('else')
                walk_body(s[3], depth + 1, context + ('if',))
        elif tag == 'repeat':
            found.add('loop:' + s[1][0])
            if 'repeat' in context:
                found.add('nested-loop')
            if 'routine' in context:
                found.add('loop-in-routine')
            walk_body(s[2], depth + 1, context + ('repeat',))
        elif tag == 'routine':
            found.add('params:{}'.format(len(s[2])))
            walk_body(s[3], depth + 1, ('routine',))
        elif tag == 'return':
            if 'repeat' in context:
                found.add('return-in-loop')
        elif tag == 'break':
            found.add('break')
        elif tag == 'call':
            if 'routine' in context:
                found.add('call-from-routine')
        elif tag == 'action':
            if len(s[2]) > 1:
                found.add('and-list')
            for operand in s[2]:
                found.add('operand:' + operand[0])
                if operand[0] == 'matrix_block':
                    walk_body(operand[2], depth + 1, context + ('matrix',))
        elif tag == 'assign' and 'repeat' in context and 'routine' in context:
            found.add('assign-in-loop-in-routine')
    walk_body(program, 0, ())
    found.add('depth:{}'.format(min(deepest[0], 4)))
    return found


def iter_statements(body):
    """Every statement at any nesting depth (incl. matrix blocks)."""
    for s in body:
        yield s
        tag = s[0]
        if tag == 'if':
            yield from iter_statements(s[2])
            if s[3]:
                yield from iter_statements(s[3])
        elif tag == 'repeat':
            yield from iter_statements(s[2])
        elif tag == 'routine':
            yield from iter_statements(s[3])
        elif tag == 'action':
            for operand in s[2]:
                if operand[0] == 'matrix_block':
                    yield from iter_statements(operand[2])


class Outcome:
    def __init__(self):
        self.status = 'ok'      # ok | discard | fail
        self.sig = None
        self.what = None
        self.why = None
        self.labels = set()
        self.text = None
        self.commands = 0
        self.observed = None
        self.expected = None
        self.result = None


def _short(event):
    if event is None:
        return 'END'
    if event[0] == 'cmd':
        return 'cmd:' + event[2]
    return event[0]


def run_case(case, layout=printer.PLAIN, tolerance=1, world_kwargs=None,
             budget=150000):
    from verif.harness import World
    out = Outcome()
    program, population = case['program'], case['population']
    text = printer.to_text(program, layout)
    out.text = text
    world = World(population, **(world_kwargs or {}))
    result = world.run(text, budget=budget)
    out.result = result
    out.labels |= ast_features(program)
    out.labels.add('pop:{}'.format(min(len(population), 3)))
    if not result.compiled:
        out.status = 'fail'
        out.sig = 'compile-rejected:' + _error_class(result.errors)
        out.what = 'well-formed program rejected: {}'.format(
            result.errors.strip()[:200])
        return out
    observed = observable(result.trace)
    out.observed = observed
    feed = [event[2] for event in observed if event[0] == 'get']

    def reference(raw_turn):
        interp = ref.Interp(population, get_feed=feed, raw_turn=raw_turn,
                            tolerance=tolerance, budget=20000)
        interp.run(program)
        return interp
    try:
        interp = reference(65536)
    except ref.Undefined as ex:
        out.status, out.why = 'discard', 'undefined:' + str(ex)
        return out
    except ref.Budget:
        out.status, out.why = 'discard', 'budget'
        return out
    except ref.RefBug as ex:
        raise HarnessError('reference interpreter: {}\n{}'.format(ex, text))
    except RecursionError:
        out.status, out.why = 'discard', 'recursion'
        return out
    out.labels |= interp.labels_seen
    expected = interp.trace
    out.expected = expected
    out.commands = sum(1 for e in expected if e[0] == 'cmd')
    diff = ref.compare(expected, observed, tolerance)
    if diff is not None and interp.used_raw_cycle:
        try:
            alt = reference(65535)
            if ref.compare(alt.trace, observed, tolerance) is None:
                diff = None
        except (ref.Undefined, ref.Budget):
            pass
    if world.lan.protocol_errors:
        out.status = 'fail'
        out.sig = 'protocol'
        out.what = world.lan.protocol_errors[0]
        return out
    if diff is None:
        if result.budget_exhausted:
            out.status = 'fail'
            out.sig = 'nontermination'
            out.what = 'script still running after {} instructions'.format(
                budget)
        return out
    index, message = diff
    if result.budget_exhausted and index >= len(observed) and (
            interp.steps * 8 > budget):
        # Long but finite: the instruction budget ran out first (inconclusive).
        out.status, out.why = 'discard', 'real-budget'
        return out
    want = expected[index] if index < len(expected) else None
    got = observed[index] if index < len(observed) else None
    abort = ''
    if result.aborted:
        abort = ' abort=' + _abort_class(result.aborted)
    elif result.budget_exhausted:
        abort = ' abort=budget'
    out.status = 'fail'
    out.sig = 'trace:want={} got={}{}'.format(_short(want), _short(got), abort)
    out.what = message + (' [{}]'.format(result.aborted) if result.aborted
                          else '')
    return out


def _abort_class(message):
    text = message[len('Machine stopped due to '):]
    text = text.split(' at instruction')[0]
    words = ''.join(c if c.isalpha() or c == ' ' else ' ' for c in text)
    return '_'.join(words.split()[:6])


def _error_class(errors):
    line = errors.strip().split('\n')[0]
    if ':' in line:
        line = line.split(':', 1)[1]
    words = ''.join(c if c.isalpha() or c == ' ' else ' ' for c in line)
    return '_'.join(words.split()[:5])
