"""Run a script single-threaded on the production parser / loader / VM over the
simulated LAN, with a recording clock and output sink.  Nothing in /repo is
modified; every seam is a public class, a module attribute or bardolph's own
injection container."""
import io
import logging
import contextlib

from verif import env  # noqa: F401
from verif import simlan

from bardolph.controller import config_values, i_controller, lifx_lan_api
from bardolph.controller import light_set as light_set_module
from bardolph.controller.script_job import ScriptJob
from bardolph.lib import i_lib, injection, settings, std_out_output
from bardolph.runtime import runtime_module
import bardolph.vm.machine as machine_module

ALL_MINUTES = [(h, m) for h in range(24) for m in range(60)]


class RecordingClock(i_lib.Clock):
    """Implements the real Clock interface without ever blocking."""

    def __init__(self, trace):
        self.trace = trace
        self.started = 0
        self.stopped = 0

    def start(self):
        self.started += 1

    def stop(self):
        self.stopped += 1

    def reset(self):
        self.trace.append(('reset',))

    def pause_for(self, delay):
        self.trace.append(('delay', delay))

    def wait_until(self, time_pattern):
        table = frozenset(
            hm for hm in ALL_MINUTES if time_pattern.match(hm[0], hm[1]))
        self.trace.append(('wait_until', table))

    def wait(self):
        return True


class RecordingOutput(i_lib.Output):
    def __init__(self, trace):
        self.trace = trace

    def out(self, output):
        self.trace.append(('out', output))

    def newline(self):
        self.trace.append(('nl',))

    def flush(self):
        self.trace.append(('flush',))


class _LogCapture(logging.Handler):
    def __init__(self):
        super().__init__(level=logging.DEBUG)
        self.records = []

    def emit(self, record):
        try:
            self.records.append((record.levelname, record.getMessage()))
        except Exception:
            self.records.append((record.levelname, str(record.msg)))


def _guard_big_integers():
    """Generated scripts can square an integer in a loop or raise a large one
    to a large power; the reference calls such values undefined (> 1e12) and
    the case is discarded, but the VM runs first and would spend minutes and
    gigabytes on the multiplication.  Past two million bits the VM's `*` and
    `^` raise OverflowError instead (an ordinary script fault).  Nothing a
    property speaks about is that large."""
    import operator
    from bardolph.vm.vm_math import VmMath
    from bardolph.vm.vm_codes import Operator
    if getattr(VmMath, '_verif_guarded', False):
        return

    def bits(value):
        return value.bit_length() if isinstance(value, int) and not \
            isinstance(value, bool) else 0

    def mul(a, b):
        if bits(a) + bits(b) > 2000000:
            raise OverflowError('verif: product too large to be worth it')
        return operator.mul(a, b)

    def power(a, b):
        if bits(a) and isinstance(b, int) and b > 0 and \
                bits(a) * b > 2000000:
            raise OverflowError('verif: power too large to be worth it')
        return operator.pow(a, b)
    VmMath._fn_table[Operator.MUL] = mul
    VmMath._fn_table[Operator.POW] = power
    VmMath._verif_guarded = True


# VM instructions executed in this process by budgeted runs (a watchdog can
# tell a slow run from one that is stuck inside a single instruction)
PROGRESS = [0]


class World:
    """One configured bardolph container + simulated LAN.  The injection
    container is process-wide, so only the most recently built World is live;
    `World.current` says which one that is."""
    current = None

    def __init__(self, specs=(), output='record', fault_plan=None,
                 pack_messages=False, extra_settings=None, discover=True,
                 extra_fns=None, clock='record'):
        _guard_big_integers()
        self.trace = []
        self.lan = simlan.install(
            simlan.SimLan(specs, fault_plan, pack_messages))
        self.lan.on_request = self._on_request
        self.clock = RecordingClock(self.trace)
        self.log = _LogCapture()
        root = logging.getLogger()
        for handler in list(root.handlers):
            root.removeHandler(handler)
        root.addHandler(self.log)
        root.setLevel(logging.WARNING)

        injection.configure()
        overrides = {'single_light_discover': True, 'sleep_time': 0.01}
        overrides.update(extra_settings or {})
        settings.using(config_values.functional).add_overrides(
            overrides).configure()
        if clock == 'real':
            import bardolph.lib.clock as clock_module
            clock_module.configure()      # the production Clock, per Machine
        else:
            injection.bind_instance(self.clock).to(i_lib.Clock)
        if output == 'record':
            injection.bind_instance(
                RecordingOutput(self.trace)).to(i_lib.Output)
        else:
            std_out_output.configure()
        lifx_lan_api.configure()
        runtime_module.configure()
        if extra_fns:
            self._extend_runtime(extra_fns)
        self.light_set = None
        if discover:
            # What light_set.configure() does, minus the refresh thread.
            self.light_set = light_set_module.LightSet()
            self.discover_ok = self.light_set.discover()
            injection.bind_instance(self.light_set).to(
                i_controller.LightSet)
        self.lan.log.clear()
        self.lan.attempts.clear()
        for device in self.lan.devices:
            device.log.clear()
            device.log_ordinals.clear()
            device.attempts.clear()
        machine_module.getch = lambda: '!'
        World.current = self

    @staticmethod
    def _extend_runtime(extra_fns):
        from bardolph.runtime import i_runtime
        base = injection.provide(i_runtime.Runtime)

        class Extended(i_runtime.Runtime):
            def get_fns(self):
                fns = dict(base.get_fns())
                fns.update(extra_fns)
                return fns
        injection.bind_instance(Extended()).to(i_runtime.Runtime)

    def _on_request(self, entry):
        label, op = entry[0], entry[1]
        if op in ('set_color', 'set_power', 'set_zone_color', 'set_tile'):
            self.trace.append(('cmd',) + tuple(entry))
        elif op == 'get_color':
            self.trace.append(('get', label, list(entry[2])))

    def compile(self, text):
        return ScriptJob.from_string(text)

    def run(self, text, budget=200000, job=None):
        """Compile and execute on this thread. Returns a RunResult."""
        if job is None:
            job = ScriptJob.from_string(text)
        result = RunResult(self, job)
        if job.program is None:
            result.compiled = False
            result.errors = job.compile_errors
            return result
        result.compiled = True
        result.execute(budget)
        return result


class RunResult:
    def __init__(self, world, job):
        self.world = world
        self.job = job
        self.compiled = None
        self.errors = ''
        self.steps = 0
        self.budget_exhausted = False
        self.aborted = None
        self.bad_pc = None
        self.stdout = None

    def execute(self, budget=200000):
        world = self.world
        machine = self.job._machine
        table = machine._fn_table
        if not getattr(machine, '_verif_wrapped', False):
            for op_code, fn in list(table.items()):
                table[op_code] = self._counted(machine, fn)
            machine._verif_wrapped = True
            machine._verif_owner = self
        else:
            machine._verif_owner = self
        self.budget = budget
        mark = len(world.log.records)
        mark_trace = len(world.trace)
        buffer = io.StringIO()
        with contextlib.redirect_stdout(buffer):
            self.job.execute()
        self.stdout = buffer.getvalue()
        for level, message in world.log.records[mark:]:
            if message.startswith('Machine stopped due to'):
                self.aborted = message
        self.trace = world.trace[mark_trace:]
        self.log_records = world.log.records[mark:]
        return self

    @staticmethod
    def _counted(machine, fn):
        def step():
            owner = machine._verif_owner
            owner.steps += 1
            PROGRESS[0] += 1
            pc = machine._reg.pc
            if not (isinstance(pc, int) and 0 <= pc < len(machine._program)) \
                    and owner.bad_pc is None:
                owner.bad_pc = pc       # control left the loaded image
            if owner.steps > owner.budget:
                owner.budget_exhausted = True
                machine.stop()
                return None
            return fn()
        return step


def normalise_trace(trace):
    """Drop bookkeeping events the properties say nothing about."""
    return [event for event in trace
            if event[0] not in ('reset', 'flush')]


_shared = {}


def shared_world(key, specs, **kwargs):
    """A World reused across cases of one check, rebuilt whenever another
    World has been created in this process since."""
    world = _shared.get(key)
    if world is None or World.current is not world:
        world = _shared[key] = World(specs, **kwargs)
    return world
