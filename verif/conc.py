"""Running real ScriptJobs / JobControl / Machine / lib.clock.Clock under the
deterministic scheduler (shared by C09 and C10)."""
import datetime

from verif import env  # noqa: F401
from verif import sched as sched_module


class Run:
    pass


def run(scenario, preemptions=None, choices=None, step_limit=60000,
        line_switches=None):
    """scenario keys:
        population   list of SimDevice specs
        tick         clock tick in seconds (dyadic)
        work         {op: seconds} virtual time a device charges per request
        start        [hour, minute, second] wall clock at virtual time 0
        late_ticks   {n: seconds} the n-th clock tick comes that much late
        clients      list of client op lists, see _client()
        scripts      {name: text}
    Returns a Run with .sched .outcome .jobs .world"""
    from verif.harness import World
    import bardolph.lib.clock as clock_module
    import bardolph.lib.job_control as job_control
    import bardolph.controller.script_job as script_job
    import bardolph.vm.machine as machine_module
    from bardolph.lib.job_control import JobControl

    start = scenario.get('start', [7, 58, 30])
    scheduler = sched_module.Scheduler(
        preemptions=preemptions, choices=choices, step_limit=step_limit,
        trace_files=[job_control.__file__, clock_module.__file__,
                     script_job.__file__],
        trace_functions={machine_module.__file__: {'run', 'stop', 'reset'}},
        wall_clock_start=datetime.datetime(2026, 1, 5, *start),
        line_switches=line_switches)
    world = World(scenario['population'], clock='real',
                  extra_settings={'sleep_time': scenario.get('tick', 0.25)})
    work = scenario.get('work', {})

    def charge(op):
        cost = work.get(op, 0)
        if cost:
            scheduler.sleep(cost)
    world.lan.work = charge

    def on_request(entry):
        if entry[1].startswith('set_'):
            scheduler.record('cmd', entry[0], entry[1], list(entry[2:]))
    world.lan.on_request = on_request

    # observation wrappers on the production Clock (delegating, no change)
    Clock = clock_module.Clock
    originals = {name: getattr(Clock, name)
                 for name in ('pause_for', 'wait_until', 'fire', 'wait',
                              'reset')}

    def pause_for(self, delay):
        scheduler.record('pause-call', delay)
        try:
            return originals['pause_for'](self, delay)
        finally:
            scheduler.record('pause-ret', delay)

    def wait_until(self, pattern):
        scheduler.record('until-call')
        try:
            return originals['wait_until'](self, pattern)
        finally:
            scheduler.record('until-ret')

    late = {int(k): v for k, v in scenario.get('late_ticks', {}).items()}
    fired = [0]

    def fire(self):
        # a late tick: the clock thread's sleep overran (a loaded host)
        fired[0] += 1
        if fired[0] in late:
            scheduler.sleep(late[fired[0]])
        scheduler.record('tick')
        return originals['fire'](self)

    def reset(self):
        scheduler.record('clock-reset')
        return originals['reset'](self)
    Clock.pause_for, Clock.wait_until = pause_for, wait_until
    Clock.fire, Clock.reset = fire, reset

    # which agent a stop request is handed to (delegating, no change): the
    # controller picks it under its lock, a caller cannot observe that
    # choice and the call in one step
    original_request_stop = job_control.Agent.request_stop

    def request_stop(self, *args, **kwargs):
        scheduler.record('stop-delivered', getattr(self, 'name', None))
        return original_request_stop(self, *args, **kwargs)
    job_control.Agent.request_stop = request_stop

    result = Run()
    result.sched = scheduler
    result.world = world
    result.jobs = {}
    result.stop_agents = []     # the agents agent_stop got hold of
    holder = {}

    class NamedJob(script_job.ScriptJob):
        """The production ScriptJob; only start / end are recorded."""
        label = None

        def execute(self):
            scheduler.record('job-start', self.label)
            try:
                return super().execute()
            finally:
                scheduler.record('job-end', self.label)

    def make_job(name):
        job = NamedJob()
        job.label = name
        job.load_string(scenario['scripts'][name])
        result.jobs[name] = job
        return job

    def client(index, ops):
        def body():
            control = holder['control']
            for number, op in enumerate(ops):
                tag = (index, number)
                scheduler.record('call', tag, op)
                value = None
                try:
                    kind = op[0]
                    if kind == 'add':
                        job = result.jobs.get(op[1]) if op[-1] == 'reuse' \
                            else None
                        job = job or make_job(op[1])
                        value = control.add_job(job, op[1]) is not None
                    elif kind == 'spawn':
                        value = control.spawn_job(
                            make_job(op[1]), op[1]) is not None
                    elif kind == 'steps':
                        for _ in range(op[1]):
                            scheduler.yield_point()
                    elif kind == 'pause':
                        scheduler.sleep(op[1])
                    elif kind == 'stop_current':
                        current = control.get_current()
                        scheduler.record('stop-target', None if current is None
                                         else current.name)
                        value = control.stop_current()
                    elif kind == 'stop_job':
                        value = control.stop_job(op[1])
                    elif kind == 'agent_stop':
                        current = control.get_current()
                        scheduler.record('stop-target', None if current is None
                                         else current.name)
                        result.stop_agents.append(current)
                        if current is not None:
                            current.request_stop()
                    elif kind == 'stop_all':
                        # the production web_app.WebApp.stop_all on our
                        # controller; the snapshot is taken as soon as its
                        # clear_queue() has returned
                        from web.web_app import WebApp
                        app = WebApp.__new__(WebApp)
                        app._jobs = control
                        app._scripts = {}
                        original_clear = control.clear_queue

                        def clear_and_snapshot():
                            original_clear()
                            current = control.get_current()
                            scheduler.record(
                                'stop-all-snapshot',
                                None if current is None else current.name)
                        control.clear_queue = clear_and_snapshot
                        try:
                            value = app.stop_all()
                        finally:
                            del control.clear_queue
                    elif kind == 'await_running':
                        # until the job's run loop has been entered (its
                        # clock has been reset by Machine.run)
                        limit = 400
                        while limit > 0 and not _run_loop_entered(
                                scheduler.log, op[1]):
                            scheduler.sleep(1 / 64)
                            limit -= 1
                    elif kind == 'await_current':
                        # until the controller reports that job as the one
                        # that is running (busy polling: the caller stays
                        # runnable, so it can be switched to at any step)
                        limit = 3000
                        while limit > 0 and not control.is_running(op[1]):
                            scheduler.yield_point()
                            limit -= 1
                        value = control.is_running(op[1])
                    elif kind == 'wait_idle':
                        # poll, like tests/script_runner.py does
                        limit = op[1]
                        while control.has_jobs() and limit > 0:
                            scheduler.sleep(0.5)
                            limit -= 0.5
                        value = not control.has_jobs()
                except Exception as ex:     # noqa
                    scheduler.record('client-exception', tag, repr(ex))
                scheduler.record('ret', tag, op, value)
        return body
    try:
        with sched_module.Patched(scheduler, [job_control, clock_module]):
            # bound again now that the modules use the scheduler's
            # primitives: should the binding ever hand out an object made at
            # configure time, that object must be made of them as well
            clock_module.configure()
            holder['control'] = JobControl()
            result.outcome = scheduler.run(*[
                client(i, ops) for i, ops in enumerate(scenario['clients'])])
            result.control = holder['control']
            # the thread each of those agents ran its job on
            result.stop_threads = [
                getattr(getattr(getattr(agent, '_thread', None), '_managed',
                                None), 'name', None)
                for agent in result.stop_agents]
    finally:
        for name, fn in originals.items():
            setattr(Clock, name, fn)
        job_control.Agent.request_stop = original_request_stop
    return result


def _run_loop_entered(log, label):
    thread = None
    for event in log:
        if event[3] == 'job-start' and event[4] == label:
            thread = event[2]
        elif thread is not None and event[2] == thread and \
                event[3] == 'clock-reset':
            return True
    return False
