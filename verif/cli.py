"""./check <ID> --tier quick|thorough | ./check <ID> --replay <path> | ./check --setup"""
import argparse
import os
import subprocess
import sys

from verif import env  # noqa: F401  (sets sys.path)


def setup() -> int:
    """Offline setup: make sure hypothesis (and, best effort, atheris) import."""
    wheels = '/opt/veriftools/wheels'
    try:
        import hypothesis  # noqa: F401
    except ImportError:
        code = subprocess.call([
            sys.executable, '-m', 'pip', 'install', '--no-index',
            '--find-links', wheels, 'hypothesis'])
        if code != 0:
            print('setup: could not install hypothesis', file=sys.stderr)
            return 2
    deps = os.path.join(env.VERIF, '.deps')
    if not os.path.isdir(os.path.join(deps, 'atheris')):
        subprocess.call([
            sys.executable, '-m', 'pip', 'install', '--no-index', '--quiet',
            '--find-links', wheels, '--target', deps, 'atheris'])
    import bardolph  # noqa: F401
    import lifxlan  # noqa: F401
    print('setup ok')
    return 0


def main() -> int:
    parser = argparse.ArgumentParser()
    parser.add_argument('check', nargs='?')
    parser.add_argument('--tier', default=os.environ.get('VERIF_TIER', 'quick'),
                        choices=('quick', 'thorough'))
    parser.add_argument('--replay')
    parser.add_argument('--setup', action='store_true')
    args = parser.parse_args()
    if args.setup:
        return setup()
    if not args.check:
        parser.error('need a check id')
    from verif import runner
    return runner.cli_main((args.check, args.tier, args.replay))


if __name__ == '__main__':
    sys.exit(main())
