"""Coverage-guided campaign (atheris / libFuzzer) on the C06 target.

libFuzzer's Fuzz() never returns, so a campaign runs in a subprocess
(`python -m verif.fuzz_atheris ...`) that writes every new failure, and
periodic statistics, to a JSON file the parent shard reads back."""
import json
import os
import subprocess
import sys

from verif import env


def campaign(acc, spec):
    """Run one campaign in a child process and merge its findings."""
    work = env.work_dir('C06', 'atheris-{}'.format(spec['seed']))
    out = os.path.join(work, 'result.json')
    corpus = os.path.join(work, 'corpus')
    os.makedirs(corpus, exist_ok=True)
    for name in os.listdir(corpus):
        os.remove(os.path.join(corpus, name))
    if spec.get('corpus'):
        seed_corpus(corpus)
    if os.path.exists(out):
        os.remove(out)
    cmd = [sys.executable, '-B', '-m', 'verif.fuzz_atheris', out, corpus,
           str(spec['seed']), str(spec['runs'])]
    proc = subprocess.run(cmd, cwd=env.VERIF, capture_output=True, text=True,
                          timeout=3600)
    if not os.path.exists(out):
        acc.label('atheris-unavailable')
        acc.extra['atheris_note'] = (proc.stderr or proc.stdout)[-400:]
        return
    with open(out) as src:
        data = json.load(src)
    acc.merge(data)
    acc.extra['atheris_executions'] = data['evaluations']


def seed_corpus(directory):
    """Scripts from the repository's tests / scripts / manual code blocks."""
    import glob
    import re
    index = 0
    sources = glob.glob(os.path.join(env.REPO, 'scripts', '*.ls'))
    sources += glob.glob(os.path.join(env.REPO, 'examples', '*.ls'))
    for path in sources:
        with open(path, errors='replace') as src:
            text = src.read()
        with open(os.path.join(directory, 'seed{}'.format(index)), 'wb') as f:
            f.write(b'\x02' + text.encode('utf-8', 'replace')[:2000])
        index += 1
    manual = os.path.join(env.REPO, 'docs', 'language.rst')
    if os.path.exists(manual):
        text = open(manual, errors='replace').read()
        for block in re.findall(
                r'code-block:: lightbulb\n\n((?:    .*\n|\n)+)', text):
            body = '\n'.join(line[4:] for line in block.split('\n'))
            with open(os.path.join(directory, 'doc{}'.format(index)),
                      'wb') as f:
                f.write(b'\x02' + body.encode('utf-8', 'replace')[:2000])
            index += 1


def child(out, corpus, seed_value, runs):
    sys.path.append(os.path.join(env.VERIF, '.deps'))
    import atheris
    with atheris.instrument_imports(include=[
            'bardolph.parser', 'bardolph.lib.time_pattern',
            'bardolph.vm.loader', 'bardolph.vm.machine',
            'bardolph.vm.call_stack', 'bardolph.vm.vm_math']):
        import bardolph.parser.parse  # noqa: F401
        import bardolph.vm.machine  # noqa: F401
    from verif.checks import c06
    from verif.runner import Acc
    acc = Acc()
    state = {'count': 0, 'failures': 0}

    def flush():
        with open(out + '.tmp', 'w') as dst:
            json.dump(acc.dump(), dst, default=repr)
        os.replace(out + '.tmp', out)

    def one_input(data):
        fdp = atheris.FuzzedDataProvider(data)
        mode = fdp.ConsumeIntInRange(0, 2)
        if mode == 0:
            count = fdp.ConsumeIntInRange(0, 40)
            text = ' '.join(
                c06.VOCAB[fdp.ConsumeIntInRange(0, len(c06.VOCAB) - 1)]
                for _ in range(count))
        elif mode == 1:
            tokens = fdp.ConsumeUnicodeNoSurrogates(400).split()
            for _ in range(fdp.ConsumeIntInRange(0, 3)):
                if tokens:
                    position = fdp.ConsumeIntInRange(0, len(tokens) - 1)
                    tokens[position] = c06.FILLERS[fdp.ConsumeIntInRange(
                        0, len(c06.FILLERS) - 1)]
            text = ' '.join(tokens)
        else:
            text = fdp.ConsumeUnicodeNoSurrogates(2000)
        c06.evaluate(acc, text, label='atheris')
        state['count'] += 1
        if len(acc.failures) != state['failures'] or \
                state['count'] % 5000 == 0 or state['count'] >= runs:
            state['failures'] = len(acc.failures)
            flush()
    atheris.Setup([sys.argv[0], '-runs={}'.format(runs),
                   '-seed={}'.format(seed_value or 1), '-max_len=2048',
                   '-print_final_stats=0', '-verbosity=0', corpus],
                  one_input)
    flush()
    atheris.Fuzz()


if __name__ == '__main__':
    child(sys.argv[1], sys.argv[2], int(sys.argv[3]), int(sys.argv[4]))
