"""A deterministic scheduler for the thread-dependent properties (C08-C10).

The real JobControl / Agent / ScriptJob / Machine.run / lib.clock.Clock run on
real Python threads of which exactly one runs at a time.  threading.Thread,
RLock, Lock, Event, time.sleep, time.time and datetime.now are replaced, for
the duration of a scenario, in the globals of the modules under test.  Each
managed thread yields to the scheduler before every source line executed in
the listed files and at every shim call.  Time is virtual: it advances only
when no managed thread is runnable.  A schedule is data: preemptions
{step -> thread index} plus a list of choices used whenever several threads
are runnable at a blocking point."""
import datetime as real_datetime
import linecache
import os
import sys
import threading as real_threading
import types


class Abort(BaseException):
    """Raised inside managed threads to unwind them at the end of a run."""


class MThread:
    def __init__(self, sched, target, args, kwargs, name):
        self.sched = sched
        self.target, self.args, self.kwargs = target, args, kwargs or {}
        self.name = name
        self.index = len(sched.threads)
        self.gate = real_threading.Semaphore(0)
        self.state = 'runnable'
        self.wake_at = None
        self.waiting_on = None
        self.result = None
        self.error = None
        self.real = real_threading.Thread(target=self._bootstrap, daemon=True)
        self.real.start()

    def _bootstrap(self):
        self.gate.acquire()
        sched = self.sched
        try:
            if sched.aborting:
                return
            sys.settrace(sched._global_trace)
            try:
                self.target(*self.args, **self.kwargs)
            except Abort:
                pass
            except BaseException as ex:       # noqa: recorded, not hidden
                self.error = ex
                sched.errors.append((self.name, ex))
        finally:
            sys.settrace(None)
            self.state = 'done'
            sched._thread_finished(self)


class Scheduler:
    current_scheduler = None

    def __init__(self, preemptions=None, choices=None, step_limit=20000,
                 trace_files=(), trace_functions=None, start_time=0.0,
                 wall_clock_start=None, line_switches=None):
        self.threads = []
        self.current = None
        self.now = start_time
        self.steps = 0
        self.step_limit = step_limit
        self.preemptions = dict(preemptions or {})
        self.choices = list(choices or [])
        self.aborting = False
        self.outcome = None           # 'finished' | 'deadlock' | 'step-limit'
        self.detail = None
        self.errors = []
        self.log = []
        self.switches = 0
        self.preemptions_taken = []
        self.trace_files = {os.path.abspath(f) for f in trace_files}
        self.trace_functions = trace_functions or {}
        self.done = real_threading.Event()
        self.wall_clock_start = wall_clock_start or real_datetime.datetime(
            2026, 1, 5, 7, 58, 30)
        self.last_line = {}
        # [{'thread': i, 'func': name, 'text': prefix, 'nth': k, 'to': j}]:
        # when thread i is about to execute, for the k-th time, a line of
        # `func` whose source starts with `text`, switch to thread j
        self.line_switches = [dict(sw, seen=0) for sw in (line_switches or [])]
        self.run_length = 0
        self.quantum = 400

    # ---- tracing ---------------------------------------------------------------
    def _global_trace(self, frame, event, arg):
        if event != 'call':
            return None
        code = frame.f_code
        filename = code.co_filename
        if filename in self.trace_files:
            return self._local_trace
        names = self.trace_functions.get(filename)
        if names is not None and code.co_name in names:
            return self._local_trace
        return None

    def _local_trace(self, frame, event, arg):
        if event == 'line':
            me = self.current
            if me is not None:
                self.last_line[me.index] = (
                    os.path.basename(frame.f_code.co_filename),
                    frame.f_code.co_name, frame.f_lineno)
                if self.line_switches and self._line_switch(me, frame):
                    return self._local_trace
            self.yield_point()
        return self._local_trace

    def _line_switch(self, me, frame):
        if real_threading.current_thread() is not me.real or self.aborting:
            return False
        for switch in self.line_switches:
            if switch['thread'] != me.index or \
                    switch['func'] != frame.f_code.co_name:
                continue
            text = linecache.getline(frame.f_code.co_filename,
                                     frame.f_lineno).strip()
            if not text.startswith(switch['text']):
                continue
            switch['seen'] += 1
            if switch['seen'] != switch['nth']:
                continue
            target = next((t for t in self.threads
                           if t.index == switch['to']
                           and t.state == 'runnable' and t is not me), None)
            if target is None:
                continue
            self.steps += 1
            self.preemptions_taken.append(
                (self.steps, me.name, target.name, self.last_line.get(me.index)))
            self._transfer(me, target)
            return True
        return False

    # ---- core ------------------------------------------------------------------------
    def spawn(self, target, args=(), kwargs=None, name=None):
        thread = MThread(self, target, args, kwargs,
                         name or 'T{}'.format(len(self.threads)))
        self.threads.append(thread)
        if self.aborting:
            thread.gate.release()       # it will see the abort and end
        return thread

    def record(self, *what):
        self.log.append((self.now, self.steps,
                         self.current.name if self.current else None) + what)

    def yield_point(self):
        me = self.current
        if me is None or real_threading.current_thread() is not me.real:
            return
        if self.aborting:
            raise Abort()
        self.steps += 1
        if self.steps > self.step_limit:
            self._abort('step-limit', self._where())
            raise Abort()
        target = self.preemptions.get(self.steps)
        if target is None:
            # Fairness: a thread that computes without ever blocking neither
            # starves the others nor freezes time (an OS would preempt it).
            self.run_length += 1
            if self.run_length >= self.quantum:
                self._time_slice(me)
            return
        candidates = [t for t in self.threads
                      if t.state == 'runnable' and t is not me]
        if not candidates:
            return
        nxt = candidates[target % len(candidates)]
        self.preemptions_taken.append(
            (self.steps, me.name, nxt.name, self.last_line.get(me.index)))
        self._transfer(me, nxt)

    def _time_slice(self, me):
        self.run_length = 0
        others = [t for t in self.threads
                  if t.state == 'runnable' and t is not me]
        if not others:
            timed = [t for t in self.threads
                     if t.state == 'blocked' and t.wake_at is not None]
            if not timed:
                return
            self.now = max(self.now, min(t.wake_at for t in timed))
            for thread in timed:
                if thread.wake_at <= self.now:
                    waiting_on = thread.waiting_on
                    if hasattr(waiting_on, '_forget'):
                        waiting_on._forget(thread)
                    self.wake(thread, False)
            others = [t for t in self.threads
                      if t.state == 'runnable' and t is not me]
        later = [t for t in others if t.index > me.index]
        self._transfer(me, (later or others)[0])

    def _transfer(self, me, nxt):
        self.run_length = 0
        self.switches += 1
        self.current = nxt
        nxt.gate.release()
        me.gate.acquire()
        if self.aborting:
            raise Abort()

    def block(self, me, waiting_on, deadline):
        """Block the calling thread; returns the value passed to wake(), or
        False when the virtual deadline expires."""
        me.state = 'blocked'
        me.waiting_on = waiting_on
        me.wake_at = deadline
        me.result = None
        nxt = self._pick_next()
        if nxt is None:
            self._abort('deadlock', self._where())
            raise Abort()
        if nxt is not me:
            self._transfer(me, nxt)
        return me.result

    def wake(self, thread, result=True):
        if thread.state == 'blocked':
            thread.state = 'runnable'
            thread.waiting_on = None
            thread.wake_at = None
            thread.result = result

    def _pick_next(self):
        while True:
            runnable = [t for t in self.threads if t.state == 'runnable']
            if runnable:
                if len(runnable) > 1 and self.choices:
                    return runnable[self.choices.pop(0) % len(runnable)]
                return runnable[0]
            timed = [t for t in self.threads
                     if t.state == 'blocked' and t.wake_at is not None]
            if not timed:
                return None
            self.now = max(self.now, min(t.wake_at for t in timed))
            for thread in timed:
                if thread.wake_at <= self.now:
                    waiting_on = thread.waiting_on
                    if hasattr(waiting_on, '_forget'):
                        waiting_on._forget(thread)
                    self.wake(thread, False)

    def _thread_finished(self, me):
        self.log.append((self.now, self.steps, me.name, 'thread-done',
                         me.name))
        for waiter in [t for t in self.threads
                       if t.state == 'blocked' and t.waiting_on is me]:
            self.wake(waiter, True)
        if self.aborting:
            if all(t.state == 'done' for t in self.threads):
                self.done.set()
            return
        nxt = self._pick_next()
        if nxt is not None:
            self.current = nxt
            nxt.gate.release()
            return
        if all(t.state == 'done' for t in self.threads):
            self.outcome = 'finished'
            self.done.set()
        else:
            self._abort('deadlock', self._where())

    def _where(self):
        return {t.name: (t.state, _describe(t.waiting_on),
                         self.last_line.get(t.index))
                for t in self.threads if t.state != 'done'}

    def _abort(self, outcome, detail):
        if self.aborting:
            return
        self.outcome, self.detail = outcome, detail
        self.aborting = True
        for thread in self.threads:
            if thread.state != 'done':
                thread.gate.release()
        # the caller (a managed thread) raises Abort itself
        if all(t.state == 'done' for t in self.threads):
            self.done.set()

    def run(self, *mains, timeout=120):
        """Run the given callables as managed threads until everything the
        scenario started has finished (or deadlock / step limit)."""
        Scheduler.current_scheduler = self
        for index, main in enumerate(mains):
            self.spawn(main, name='client{}'.format(index))
        first = self.threads[0]
        self.current = first
        first.gate.release()
        finished = self.done.wait(timeout)
        if not finished:
            self._abort('harness-timeout', self._where())
        for thread in self.threads:
            thread.real.join(5)
        alive = [t.name for t in self.threads if t.real.is_alive()]
        if alive and self.outcome == 'finished':
            self.outcome = 'harness-timeout'
        if not finished and self.outcome != 'harness-timeout':
            self.outcome = 'harness-timeout'
        return self.outcome

    # ---- shims ----------------------------------------------------------------------------
    def sleep(self, seconds):
        me = self.current
        self.yield_point()
        if seconds > 0:
            self.block(me, 'sleep', self.now + seconds)

    def time(self):
        return 1767600000.0 + self.now

    def shims(self):
        sched = self

        class Lock:
            reentrant = False

            def __init__(self):
                self.owner = None
                self.count = 0
                self.waiters = []

            def acquire(self, blocking=True, timeout=-1):
                sched.yield_point()
                me = sched.current
                if self.owner is None or (self.reentrant and self.owner is me):
                    self.owner = me
                    self.count += 1
                    return True
                if not blocking:
                    return False
                self.waiters.append(me)
                deadline = sched.now + timeout if timeout is not None and \
                    timeout >= 0 else None
                return bool(sched.block(me, self, deadline))

            def _forget(self, thread):
                if thread in self.waiters:
                    self.waiters.remove(thread)

            def release(self):
                if self.owner is None:
                    raise RuntimeError('release unlocked lock')
                if self.count > 1:
                    self.count -= 1
                else:
                    self.owner = None
                    self.count = 0
                    if self.waiters:
                        waiter = self.waiters.pop(0)
                        self.owner = waiter
                        self.count = 1
                        sched.wake(waiter, True)
                sched.yield_point()

            __enter__ = acquire

            def __exit__(self, *args):
                self.release()

            def __repr__(self):
                return '<lock owner={}>'.format(
                    self.owner.name if self.owner else None)

        class RLock(Lock):
            reentrant = True

        class Event:
            def __init__(self):
                self.flag = False
                self.waiters = []

            def is_set(self):
                return self.flag

            def set(self):
                self.flag = True
                waiters, self.waiters = self.waiters, []
                for waiter in waiters:
                    sched.wake(waiter, True)
                sched.yield_point()

            def clear(self):
                self.flag = False
                sched.yield_point()

            def _forget(self, thread):
                if thread in self.waiters:
                    self.waiters.remove(thread)

            def wait(self, timeout=None):
                sched.yield_point()
                if self.flag:
                    return True
                me = sched.current
                self.waiters.append(me)
                deadline = sched.now + timeout if timeout is not None else None
                return bool(sched.block(me, self, deadline))

            def __repr__(self):
                return '<event>'

        class Thread:
            def __init__(self, group=None, target=None, name=None, args=(),
                         kwargs=None, daemon=None):
                self._target, self._args, self._kwargs = target, args, kwargs
                self.name = name
                self.daemon = daemon
                self._managed = None

            def start(self):
                self._managed = sched.spawn(
                    self._target, self._args, self._kwargs,
                    self.name or 'thread{}'.format(len(sched.threads)))
                sched.yield_point()

            def is_alive(self):
                return self._managed is not None and \
                    self._managed.state != 'done'

            def join(self, timeout=None):
                sched.yield_point()
                if self._managed is None or self._managed.state == 'done':
                    return
                deadline = sched.now + timeout if timeout is not None else None
                sched.block(sched.current, self._managed, deadline)

        threading_shim = types.SimpleNamespace(
            Thread=Thread, Lock=Lock, RLock=RLock, Event=Event,
            current_thread=real_threading.current_thread)
        time_shim = types.SimpleNamespace(
            time=sched.time, sleep=sched.sleep, monotonic=lambda: sched.now)

        class DateTime:
            @staticmethod
            def now():
                return sched.wall_clock_start + real_datetime.timedelta(
                    seconds=sched.now)
        return threading_shim, time_shim, DateTime


def _describe(obj):
    if obj is None:
        return None
    if isinstance(obj, MThread):
        return 'join ' + obj.name
    return repr(obj)


class Patched:
    """Swap the shims into the globals of the modules under test."""

    def __init__(self, sched, modules):
        self.sched = sched
        self.modules = modules
        self.saved = []

    def __enter__(self):
        import threading
        import time
        import datetime
        threading_shim, time_shim, datetime_shim = self.sched.shims()
        for module in self.modules:
            for name, value in list(vars(module).items()):
                replacement = None
                if value is threading:
                    replacement = threading_shim
                elif value is time:
                    replacement = time_shim
                elif value is datetime.datetime:
                    replacement = datetime_shim
                elif value is threading.Thread:
                    replacement = threading_shim.Thread
                elif value is threading.RLock:
                    replacement = threading_shim.RLock
                elif value is threading.Event:
                    replacement = threading_shim.Event
                elif value is time.sleep:
                    replacement = time_shim.sleep
                elif value is time.time:
                    replacement = time_shim.time
                if replacement is not None:
                    self.saved.append((module, name, value))
                    setattr(module, name, replacement)
        return self

    def __exit__(self, *args):
        for module, name, value in self.saved:
            setattr(module, name, value)
        self.saved = []
