"""Shard a check over the cores, merge, match known findings, write evidence.

Exit codes: 0 held / only known findings; 1 violation (VIOLATION line);
2 harness error.
"""
import importlib
import json
import multiprocessing
import os
import sys
import time
import traceback
from collections import Counter

from verif import env
from verif.env import HarnessError

MAX_SAMPLES = 5
CORES = int(os.environ.get('VERIF_CORES', '16'))


class Acc:
    """What one shard (or the merge of all shards) observed."""

    def __init__(self):
        self.evaluations = 0
        self.nontrivial = set()
        self.labels = Counter()
        self.samples = []
        self.discarded = 0
        self.failures = {}      # sig -> {'sig','what','case','size'}
        self.excluded = Counter()   # sig -> number of further cases with it
        self.extra = {}
        self.fallback_sample = None

    # ---- recording -------------------------------------------------------
    def case(self, key=None, nontrivial=False, labels=(), sample=None):
        self.evaluations += 1
        if nontrivial:
            self.nontrivial.add(
                key if isinstance(key, str) and len(key) <= 16
                else env.stable_hash(key))
        for label in labels:
            self.labels[label] += 1
        if sample is not None and len(self.samples) < MAX_SAMPLES:
            self.samples.append(sample)
        elif sample is None and self.fallback_sample is None and \
                key is not None:
            # keep one actual case in any event (evidence needs a sample)
            text = key if isinstance(key, str) else repr(key)
            self.fallback_sample = {'case': text[:600]}

    def label(self, *labels):
        for label in labels:
            self.labels[label] += 1

    def discard(self, why='undefined'):
        self.discarded += 1
        self.labels['discard:' + why] += 1

    def fail(self, sig, what, case):
        size = len(json.dumps(case, default=repr))
        old = self.failures.get(sig)
        if old is None:
            self.failures[sig] = {
                'sig': sig, 'what': what, 'case': case, 'size': size}
        else:
            self.excluded[sig] += 1
            if size < old['size']:
                self.failures[sig] = {
                    'sig': sig, 'what': what, 'case': case, 'size': size}

    # ---- transport -------------------------------------------------------
    def dump(self):
        return {
            'evaluations': self.evaluations,
            'nontrivial': sorted(self.nontrivial),
            'labels': dict(self.labels),
            'samples': self.samples or (
                [self.fallback_sample] if self.fallback_sample else []),
            'discarded': self.discarded,
            'failures': self.failures,
            'excluded': dict(self.excluded),
            'extra': self.extra,
        }

    def merge(self, dumped):
        self.evaluations += dumped['evaluations']
        self.nontrivial.update(dumped['nontrivial'])
        self.labels.update(dumped['labels'])
        for sample in dumped['samples']:
            if len(self.samples) < MAX_SAMPLES:
                self.samples.append(sample)
        self.discarded += dumped['discarded']
        for sig, failure in dumped['failures'].items():
            old = self.failures.get(sig)
            if old is None or failure['size'] < old['size']:
                if old is not None:
                    self.excluded[sig] += 1
                self.failures[sig] = failure
            else:
                self.excluded[sig] += 1
        self.excluded.update(dumped['excluded'])
        for key, value in dumped['extra'].items():
            if isinstance(value, (int, float)) and not isinstance(value, bool):
                self.extra[key] = self.extra.get(key, 0) + value
            elif isinstance(value, bool):
                self.extra[key] = self.extra.get(key, True) and value
            else:
                self.extra.setdefault(key, value)


def _production_frame(tb):
    """(file, function) when the exception was raised by the code under test
    and escaped to the harness that called it, else None."""
    frames = traceback.extract_tb(tb)
    if not frames:
        return None
    last = frames[-1]
    repo = os.path.realpath(env.REPO) + os.sep
    if os.path.realpath(last.filename).startswith(repo):
        return os.path.relpath(os.path.realpath(last.filename), repo), last.name
    return None


def _shard_entry(args):
    module_name, spec = args
    try:
        module = importlib.import_module(module_name)
        acc = module.run_shard(spec)
        return ('ok', acc.dump())
    except BaseException as ex:     # noqa: faults are reported, never hidden
        text = traceback.format_exc()
        where = None
        if isinstance(ex, Exception) and not isinstance(ex, HarnessError):
            where = _production_frame(sys.exc_info()[2])
        if where is not None:
            # Not a fault of the harness: an entry point of the code under
            # test (set-up, discovery, a controller call) raised to its
            # caller, where no exception can come from on the unchanged
            # tree. Whatever the property, it cannot hold for a run that
            # never took place.
            acc = Acc()
            acc.fail('production-raised:{}@{}:{}'.format(
                type(ex).__name__, where[0], where[1]),
                'the code under test raised out of {} ({}): {!r}'.format(
                    where[1], where[0], ex),
                {'kind': 'production-raised', 'spec': spec,
                 'traceback': text[-1500:]})
            return ('ok', acc.dump())
        return ('error', text)


def run_shards(module_name, specs):
    merged = Acc()
    if not specs:
        return merged
    procs = min(CORES, len(specs))
    jobs = [(module_name, spec) for spec in specs]
    if procs <= 1 or os.environ.get('VERIF_INLINE'):
        results = map(_shard_entry, jobs)
    else:
        ctx = multiprocessing.get_context('spawn')
        pool = ctx.Pool(procs, maxtasksperchild=8)
        results = pool.imap_unordered(_shard_entry, jobs)
    errors = []
    for status, payload in results:
        if status == 'ok':
            merged.merge(payload)
        else:
            errors.append(payload)
    if procs > 1 and not os.environ.get('VERIF_INLINE'):
        pool.close()
        pool.join()
    if errors:
        raise HarnessError('shard failed:\n' + errors[0])
    return merged


# ---- known findings ---------------------------------------------------------
def load_known(prop):
    path = os.path.join(env.VERIF, 'known_findings.json')
    if not os.path.exists(path):
        return []
    with open(path) as src:
        data = json.load(src)
    return [f for f in data.get('findings', []) if f['property'] == prop]


def avoid_flags(prop):
    flags = set()
    if os.environ.get('VERIF_NO_AVOID'):
        return flags        # development: generate the excluded shapes too
    for finding in load_known(prop):
        if finding.get('status') == 'open':
            flags.update(finding.get('avoid', []))
    return flags


def _safe_name(sig):
    keep = ''.join(c if c.isalnum() or c in '-_.' else '_' for c in sig)
    return keep[:60] + '-' + env.stable_hash(sig)[:8]


def write_replay(prop, failure):
    directory = os.path.join(env.VERIF, 'replays', prop)
    os.makedirs(directory, exist_ok=True)
    path = os.path.join(directory, _safe_name(failure['sig']) + '.json')
    with open(path, 'w') as dst:
        json.dump({'property': prop, 'sig': failure['sig'],
                   'what': failure['what'], 'case': failure['case']},
                  dst, indent=1, sort_keys=True, default=repr)
        dst.write('\n')
    return os.path.relpath(path, env.VERIF)


def run_replay_file(module, path):
    if not os.path.isabs(path):
        path = os.path.join(env.VERIF, path)
    with open(path) as src:
        data = json.load(src)
    case = data['case']
    if isinstance(case, dict) and case.get('kind') == 'production-raised':
        status, payload = _shard_entry((module.__name__, case['spec']))
        if status != 'ok':
            raise HarnessError('shard failed:\n' + payload)
        return [(f['sig'], f['what']) for f in payload['failures'].values()
                if f['sig'].startswith('production-raised')], data
    return module.replay(case), data


def main(check_id, tier, replay_path=None):
    start = time.time()
    module_name = 'verif.checks.' + check_id.lower()
    module = importlib.import_module(module_name)
    prop = module.ID
    seed = env.seed()

    if replay_path is not None:
        failures, data = run_replay_file(module, replay_path)
        if failures:
            for sig, what in failures:
                print('replay fails: {} -- {}'.format(sig, what))
            print('VIOLATION property={} replay={}'.format(prop, replay_path))
            return 1
        print('replay passes: {}'.format(replay_path))
        return 0

    known = load_known(prop)
    violations = []      # (sig, what, replay path)
    known_lines = []

    # 1. Regression / known-finding replays.
    suppressed = {}
    replayed = 0
    for finding in known:
        status = finding.get('status')
        for sig in finding.get('sigs', []):
            if status == 'open':
                suppressed[sig] = finding
        path = finding.get('replay')
        if not path:
            continue
        try:
            failures, _ = run_replay_file(module, path)
        except HarnessError:
            raise
        except Exception as ex:     # noqa
            where = _production_frame(sys.exc_info()[2])
            if where is None:
                raise
            failures = [('production-raised',
                         'the code under test raised out of {} ({}): {!r}'
                         .format(where[1], where[0], ex))]
        replayed += 1
        if status == 'open':
            if failures:
                known_lines.append('KNOWN-FINDING: property={} {}'.format(
                    prop, finding['what']))
            else:
                print('note: open finding {} no longer reproduces'.format(
                    finding['id']))
        elif failures:
            sig, what = failures[0]
            violations.append(('regression:' + finding['id'], what, path))

    # 2. Generated search.
    specs = module.plan(tier, seed)
    merged = run_shards(module_name, specs)
    known_hits = Counter()
    for sig, failure in sorted(merged.failures.items()):
        match = suppressed.get(sig)
        if match is None:
            for prefix, finding in suppressed.items():
                if prefix.endswith('*') and sig.startswith(prefix[:-1]):
                    match = finding
                    break
        if match is not None:
            known_hits[match['id']] += 1 + merged.excluded.get(sig, 0)
            continue
        if hasattr(module, 'shrink') and not os.environ.get(
                'VERIF_NOSHRINK') and not sig.startswith('production-raised'):
            try:
                failure = module.shrink(failure) or failure
            except Exception:   # shrinking is best effort
                traceback.print_exc()
        violations.append(
            (sig, failure['what'], write_replay(prop, failure)))

    if hasattr(module, 'finish'):
        module.finish(merged, tier)

    # 3. Evidence.
    wall = time.time() - start
    coverage = {
        'evaluations': merged.evaluations,
        'distinct_nontrivial': len(merged.nontrivial),
        'rule': module.RULE,
        'samples': merged.samples,
        'labels': dict(sorted(merged.labels.items())),
        'discarded': merged.discarded,
        'excluded_by_signature': dict(merged.excluded),
        'known_finding_hits': dict(known_hits),
        'regression_replays': replayed,
        'shards': len(specs),
    }
    coverage.update(merged.extra)
    evidence = {
        'property_id': prop,
        'tier': tier,
        'seed': seed,
        'level': getattr(module, 'LEVEL', 'exploration'),
        'coverage': coverage,
        'assumptions': list(getattr(module, 'ASSUMPTIONS', [])),
        'wall_s': round(wall, 2),
        'violations': len(violations),
    }
    # VERIF_EVIDENCE_DIR: tools that run checks against a deliberately broken
    # tree keep that run's evidence away from the real one
    directory = os.environ.get('VERIF_EVIDENCE_DIR') or os.path.join(
        env.VERIF, 'evidence')
    os.makedirs(directory, exist_ok=True)
    with open(os.path.join(directory, prop + '.json'), 'w') as dst:
        json.dump(evidence, dst, indent=1, sort_keys=True, default=repr)
        dst.write('\n')

    # 4. Verdict.
    print('{} {} seed={} evaluations={} nontrivial={} discarded={} '
          'wall={:.1f}s'.format(prop, tier, seed, merged.evaluations,
                                len(merged.nontrivial), merged.discarded,
                                wall))
    minimum = getattr(module, 'MIN_LABELS', {}).get(tier, {})
    if violations:
        # what was found stands, however little else was generated
        minimum = {}
    for label, count in minimum.items():
        if merged.labels.get(label, 0) < count:
            raise HarnessError(
                'generator too weak: label {!r} seen {} times, need {}'
                .format(label, merged.labels.get(label, 0), count))
    if not violations and merged.evaluations and merged.discarded > 0.25 * (
            merged.evaluations + merged.discarded):
        raise HarnessError('discard rate too high: {} of {}'.format(
            merged.discarded, merged.evaluations + merged.discarded))
    for line in known_lines:
        print(line)
    for sig, what, path in violations:
        print('violation: {} -- {}'.format(sig, what))
        print('VIOLATION property={} replay={}'.format(prop, path))
    return 1 if violations else 0


def cli_main(argv):
    try:
        return main(*argv)
    except HarnessError as ex:
        print('HARNESS ERROR: {}'.format(ex), file=sys.stderr)
        return 2
    except Exception:
        traceback.print_exc()
        return 2
